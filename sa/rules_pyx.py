"""Rules over depccg/parsing.pyx (normalised Cython -> Python AST -> symbolic paths)."""
import ast

from . import pyx
from .core import AnalysisError, src, dotted
from . import logic
from .pysym import SymExec, show, subterms, is_method_call, path_values, alternatives, all_calls, terms_of

REL = pyx.REL
MUTATORS = {'append', 'extend', 'insert', 'pop', 'remove', 'clear', 'sort', 'reverse', 'update',
            'setdefault', 'popitem', 'add', 'discard', '__setitem__', '__delitem__'}


def N(x):
    return ('name', x)


def C(v):
    return ('const', v)


def A(b, a):
    return ('attr', b, a)


def S(b, i):
    return ('sub', b, i)


def bind_args(call_t, fn):
    """call term + callee FunctionDef -> {param: term}; defaults are ('default', src)."""
    params = [a.arg for a in fn.args.args]
    if fn.decorator_list and any(src(d) in ('classmethod',) for d in fn.decorator_list):
        params = params[1:]
    elif params and params[0] == 'self':
        params = params[1:]
    out = {}
    args, kws = call_t[2], call_t[3]
    if len(args) > len(params):
        raise AnalysisError('too many positional arguments in %s' % show(call_t))
    for p, a in zip(params, args):
        out[p] = a
    for k, v in kws:
        if k is None or k not in params:
            raise AnalysisError('unexpected keyword %r in %s' % (k, show(call_t)))
        out[k] = v
    defaults = fn.args.defaults
    for p, d in zip(params[len(params) - len(defaults):], defaults):
        out.setdefault(p, ('default', src(d)))
    missing = [p for p in params if p not in out]
    if missing:
        raise AnalysisError('missing arguments %s in %s' % (missing, show(call_t)))
    return out


class RetrieveTree(object):
    """Symbolic summary of retrieve_tree: one entry per path."""

    def __init__(self, repo):
        self.mod = pyx.load(repo)
        self.fn = self.mod.get('retrieve_tree')
        a = [x.arg for x in self.fn.args.args]
        if len(a) != 4:
            raise AnalysisError('%s: retrieve_tree has %d parameters' % (REL, len(a)))
        self.p_item, self.p_tok, self.p_cache, self.p_kw = a
        # the user data may be a dictionary (kw['stack']) or a record (kw.stack): read a field of it, under either
        # spelling, as the subscript
        aliases = {self.p_kw}
        for _ in range(3):
            for n_ in ast.walk(self.fn):
                if isinstance(n_, ast.Assign) and len(n_.targets) == 1 and isinstance(n_.targets[0], ast.Name) \
                        and isinstance(n_.value, ast.Name) and n_.value.id in aliases:
                    aliases.add(n_.targets[0].id)
        class _Fields(ast.NodeTransformer):
            def visit_Attribute(self_, n_):
                self_.generic_visit(n_)
                if isinstance(n_.value, ast.Name) and n_.value.id in aliases and isinstance(n_.ctx, ast.Load):
                    par = getattr(n_, '_parent', None)
                    if not (isinstance(par, ast.Call) and par.func is n_):
                        new_ = ast.Subscript(value=n_.value, slice=ast.Constant(value=n_.attr), ctx=ast.Load())
                        ast.copy_location(new_, n_)
                        ast.fix_missing_locations(new_)
                        new_._parent = par
                        return new_
                return n_
        if any(isinstance(n_, ast.Attribute) and isinstance(n_.value, ast.Name) and n_.value.id in aliases for n_ in ast.walk(self.fn)):
            _Fields().visit(self.fn)
        self.tree_mod = repo.module('depccg/tree.py')
        self.Tree = self.tree_mod.get('Tree')
        self.paths = []
        kw = N(self.p_kw)
        # the entry point may keep only the goal handling and leave the recursion to a builder of its own:
        #   retrieve_tree(item, tok, cache, kw):  [if item.fin: scores.append(..); item = item.left]  build(item, tok, cache, kw[..], ..)
        # The builder is then read with its extra parameters standing for the user-data fields the entry point passes.
        self.split = None
        calls_self = any(isinstance(c_, ast.Call) and isinstance(c_.func, ast.Name) and c_.func.id == self.fn.name for c_ in ast.walk(self.fn))
        if not calls_self:
            cands = []
            for c_ in ast.walk(self.fn):
                if isinstance(c_, ast.Call) and isinstance(c_.func, ast.Name):
                    g_ = self.mod.get(c_.func.id, required=False)
                    if isinstance(g_, ast.FunctionDef) and g_ is not self.fn and any(
                            isinstance(x_, ast.Call) and isinstance(x_.func, ast.Name) and x_.func.id == g_.name for x_ in ast.walk(g_)) and any(
                            isinstance(x_, ast.Call) and isinstance(x_.func, ast.Attribute) and x_.func.attr.startswith('make_') for x_ in ast.walk(g_)):
                        cands.append((g_, c_))
            if len({id(g_) for g_, _ in cands}) == 1:
                g_, c_ = cands[0]
                gp = [x.arg for x in g_.args.args]
                if len(gp) >= 3 and len(c_.args) == len(gp) and not c_.keywords:
                    env = {gp[0]: N(self.p_item), gp[1]: N(self.p_tok), gp[2]: N(self.p_cache)}
                    okm = src(c_.args[1]) == self.p_tok and src(c_.args[2]) == self.p_cache
                    for pn, ae in zip(gp[3:], c_.args[3:]):
                        if isinstance(ae, ast.Subscript) and isinstance(ae.value, ast.Name) and ae.value.id in aliases and isinstance(ae.slice, ast.Constant):
                            env[pn] = S(kw, C(ae.slice.value))
                        else:
                            okm = False
                    if okm:
                        stack_params = {x_.func.value.id for x_ in ast.walk(g_) if isinstance(x_, ast.Call) and isinstance(x_.func, ast.Attribute) and x_.func.attr == 'append'
                                        and isinstance(x_.func.value, ast.Name) and x_.func.value.id in gp[3:] and x_.args and isinstance(x_.args[0], ast.Call)
                                        and isinstance(x_.args[0].func, ast.Attribute) and x_.args[0].func.attr.startswith('make_')}
                        self.split = {'builder': g_, 'env': env, 'value_mode': not stack_params}
        # the user-data record's keys, by what is done with them (names are the refactorer's business)
        self.keys = {'stack': 'stack', 'scores': 'scores', 'categories': 'categories', 'tokens': 'tokens'}
        found = {}

        def key_of(t):
            return t[2][1] if t[0] == 'sub' and t[1] == kw and t[2][0] == 'const' and isinstance(t[2][1], str) else None

        def probe_call(st, t, node):
            if t[1] == N(self.fn.name):
                return ('sym', 'cat-id')
            if is_method_call(t, 'append') and key_of(t[1][1]) and t[2]:
                a = t[2][0]
                if a[0] == 'call' and a[1][0] == 'attr' and a[1][1] == N('Tree'):
                    found.setdefault('stack', set()).add(key_of(t[1][1]))
                elif any(c == A(N(self.p_item), 'fin') and pol for c, pol, _ in st.conds):
                    found.setdefault('scores', set()).add(key_of(t[1][1]))
            return None
        probe_runs = list(SymExec(self.fn, on_call=probe_call, init_env={}).run())
        if self.split:
            probe_runs += list(SymExec(self.split['builder'], on_call=probe_call, init_env=dict(self.split['env'])).run())
            if self.split['value_mode']:
                # the finished tree is appended by the entry point: kw[<stack>].append(build(..))
                for c_ in ast.walk(self.fn):
                    if isinstance(c_, ast.Call) and isinstance(c_.func, ast.Attribute) and c_.func.attr == 'append' and c_.args and isinstance(c_.args[0], ast.Call) \
                            and isinstance(c_.args[0].func, ast.Name) and c_.args[0].func.id == self.split['builder'].name \
                            and isinstance(c_.func.value, ast.Subscript) and isinstance(c_.func.value.slice, ast.Constant):
                        found.setdefault('stack', set()).add(c_.func.value.slice.value)
        for st, out in probe_runs:
            for t in (x for t0 in terms_of(st) for x in subterms(t0)):
                if t[0] == 'sub' and key_of(t[1]):
                    if t[2] == A(N(self.p_item), 'cat'):
                        found.setdefault('categories', set()).add(key_of(t[1]))
                    elif t[2] == S(N(self.p_tok), C(0)):
                        found.setdefault('tokens', set()).add(key_of(t[1]))
        for role, ks in found.items():
            if len(ks) == 1:
                self.keys[role] = next(iter(ks))
        k_stack = S(kw, C(self.keys['stack']))

        rec_names = {self.fn.name} | ({self.split['builder'].name} if self.split else set())
        value_mode = bool(self.split and self.split['value_mode'])

        def on_call(st, t, node):
            stack = st.data.setdefault('stack', [])
            f = t[1]
            if f[0] == 'name' and f[1] in rec_names:
                which = t[2][0] if t[2] else None
                tag = which[2] if which and which[0] == 'attr' and which[1] == N(self.p_item) else ('self' if which == N(self.p_item) else show(which))
                st.data.setdefault('order', []).append(tag)
                if value_mode:
                    return ('sym', 'subtree', tag)          # the builder hands the subtree back instead of leaving it on the stack
                stack.append(('sym', 'subtree', tag))
                return ('sym', 'cat-id-of', tag)
            if is_method_call(t, 'append') and f[1] == k_stack:
                stack.append(t[2][0])
                return None
            if is_method_call(t, 'pop') and f[1] == k_stack and not t[2]:
                if not stack:
                    return ('sym', 'underflow')
                return stack.pop()
            return None

        ex = SymExec(self.fn, on_call=on_call, init_env={}, no_inline=tuple(rec_names))
        for st, out in ex.run():
            self.paths.append((st, out))
        if self.split:
            for st, out in SymExec(self.split['builder'], on_call=on_call, init_env=dict(self.split['env']), no_inline=tuple(rec_names)).run():
                if value_mode and out == 'return' and st.ret is not None and st.ret[0] == 'call':
                    st.data['stack'] = st.data.get('stack', []) + [st.ret]       # what the caller receives
                st.data['builder'] = True
                self.paths.append((st, out))

    def classify(self, st):
        item = N(self.p_item)
        for c, pol, _ in st.conds:
            if c == A(item, 'fin') and pol:
                return 'fin'
        made = [e[1] for e in st.events if e[0] == 'call' and e[1][1][0] == 'attr' and e[1][1][1] == N('Tree')]
        if len(made) == 1:
            return {'make_terminal': 'leaf', 'make_unary': 'unary', 'make_binary': 'binary'}.get(made[0][1][2], '?')
        if self.split and not st.data.get('builder') and not made and st.data.get('order') == ['self']:
            return 'delegate'       # the entry point called for an item that is not a goal item: the builder does it all
        return '?'


def r_retrieve_tree(repo, rep, R, what):
    """what: subset of {'shape','score','labels'}"""
    rt = RetrieveTree(repo)
    item, kw, tok, cache = N(rt.p_item), N(rt.p_kw), N(rt.p_tok), N(rt.p_cache)
    w = lambda n: '%s:%s retrieve_tree' % (REL, getattr(n, 'lineno', rt.fn.lineno))
    kinds = {}
    for st, out in rt.paths:
        kinds.setdefault(rt.classify(st), []).append((st, out))
    # a terminal is rebuilt only for an item without children: the leaf path is taken only where the left child is known to be absent
    # (`left == NULL or right == NULL` sends every unary item there: the unary step disappears and its words collapse into one leaf)
    for st_, out_ in kinds.get('leaf', []):
        no_left = any(pol and c[0] == 'cmp' and c[1] in ('==', 'is') and A(item, 'left') in (c[2], c[3]) and (N('NULL') in (c[2], c[3]) or C(None) in (c[2], c[3]))
                      for c, pol, _ in st_.conds) or any((not pol) and c == A(item, 'left') for c, pol, _ in st_.conds)
        if not no_left:
            # ... or through a predicate of the item type whose body says so: `bool is_leaf() const { return left == nullptr && .. }`
            for c, pol, _ in st_.conds:
                if pol and c[0] == 'call' and c[1][0] == 'attr' and c[1][1] == item and not c[2]:
                    try:
                        from . import cxx as _cxx
                        _cxx.load(repo)
                        body = _cxx.RECORD_METHODS.get(('cell_item', c[1][2]))
                    except Exception:
                        body = None
                    if body is not None:
                        txt = _cxx.show(body) if hasattr(_cxx, 'show') else repr(body)
                        conj = [body] if not (body[0] == 'bin' and body[1] == '&&') else None
                        parts = []
                        stack_ = [body]
                        while stack_:
                            b_ = stack_.pop()
                            if b_[0] == 'bin' and b_[1] == '&&':
                                stack_ += [b_[2], b_[3]]
                            else:
                                parts.append(b_)
                        if any(b_[0] == 'bin' and b_[1] == '==' and any(x_[0] == 'mem' and x_[-1] == 'left' for x_ in (b_[2], b_[3]))
                               and any(x_[0] == 'lit' or x_ == ('var', 'nullptr') or 'null' in repr(x_).lower() for x_ in (b_[2], b_[3])) for b_ in parts):
                            no_left = True
        if not no_left:
            from .core import StructuralViolation
            raise StructuralViolation(R, '%s:%s retrieve_tree' % (REL, rt.fn.lineno), 'retrieve_tree:leaf:has-no-children',
                                      'retrieve_tree rebuilds a terminal on a path where the item may have a left child (%s): a unary item is returned as a leaf with the '
                                      'category of the unary result -- the tree shows a supertag the word was never given, and the leaves after it are paired with the wrong words'
                                      % '; '.join('%s%s' % ('' if pol else 'not ', show(c)[:40]) for c, pol, _ in st_.conds))
    for k in ('fin', 'leaf', 'unary', 'binary'):
        if len(kinds.get(k, [])) == 0:
            raise AnalysisError('%s: retrieve_tree: no %s path found (kinds: %s)' % (REL, k, {a: len(b) for a, b in kinds.items()}))
        if len(kinds[k]) > 1:
            # paths that differ only in which tests they passed, not in what they do, are one way of rebuilding
            sig = {}
            for st_, out_ in kinds[k]:
                sig.setdefault((tuple(tuple(x for x in e[:-1]) for e in st_.events if e[0] not in ('branch',)), st_.ret, out_), (st_, out_))
            kinds[k] = list(sig.values())
        if len(kinds[k]) > 1:
            rep.violation(R, '%s:%s retrieve_tree' % (REL, rt.fn.lineno), 'retrieve_tree:%s:several-paths' % k,
                          'retrieve_tree reconstructs a %s node along %d different paths (extra conditions decide how a node is rebuilt)' % (k, len(kinds[k])))
            kinds[k] = kinds[k][:1]
    for st, out in kinds.get('?', []):
        node = None
        for e in reversed(st.events):
            if e[0] in ('return', 'call'):
                node = e[-1]
                break
        pushed = st.data.get('stack', [])
        rep.violation(R, w(node) if node is not None else w(rt.fn), 'retrieve_tree:extra-path',
                      'retrieve_tree has a path that is none of goal / leaf / unary / binary reconstruction: it leaves %s on the result stack and returns %s '
                      '(a node not rebuilt from this very item, its children and its rule)' % ([show(x)[:40] for x in pushed], show(st.ret)[:40] if st.ret else None))
    K = rt.keys
    cat_t = S(S(kw, C(K['categories'])), A(item, 'cat'))
    fin_st = kinds['fin'][0][0]
    rec = ('call', N(rt.fn.name), (A(item, 'left'), tok, cache, kw), ())
    if 'score' in what:
        want = ('call', A(S(kw, C(K['scores'])), 'append'), (('call', A(item, 'score'), (), ()),), ())
        calls = [e[1] for e in fin_st.events if e[0] == 'call']
        n_sc = [c for c in calls if is_method_call(c, 'append') and c[1][1] == S(kw, C(K['scores']))]
        want2 = ('call', A(S(kw, C(K['scores'])), 'append'), (A(item, 'in_score'),), ())   # equal: goal out_score is 0
        rep.check(len(n_sc) == 1 and n_sc[0] in (want, want2), R, w(rt.fn), 'retrieve_tree:fin:score',
                  'the goal item reports item.score() exactly once (%s)' % show(want),
                  'goal item path records %s' % [show(c) for c in n_sc])
        others = [k for k in ('leaf', 'unary', 'binary')
                  if any(is_method_call(e[1], 'append') and e[1][1][1] == S(kw, C(K['scores']))
                         for e in kinds[k][0][0].events if e[0] == 'call')]
        rep.check(not others, R, w(rt.fn), 'retrieve_tree:score-once', 'no score is recorded for inner nodes',
                  'scores are also appended on paths %s' % others)
    if 'shape' in what:
        fin_rets = (('sym', 'cat-id-of', 'left'),) + ((A(A(item, 'left'), 'cat'),) if rt.split else ())
        rep.check(fin_st.ret in fin_rets and fin_st.data.get('stack') == [('sym', 'subtree', 'left')],
                  R, w(rt.fn), 'retrieve_tree:fin:recurse',
                  'the goal item delegates to its left child (%s)' % show(rec),
                  'goal item path returns %s' % (show(fin_st.ret) if fin_st.ret else None))
        # leaf
        st = kinds['leaf'][0][0]
        tokidx = S(tok, C(0))
        mk = [e[1] for e in st.events if e[0] == 'call' and e[1][1] == A(N('Tree'), 'make_terminal')][0]
        b = bind_args(mk, rt.tree_mod.get('Tree.make_terminal'))
        rep.check(b['word'] == S(S(kw, C(K['tokens'])), tokidx), R, w(rt.fn), 'retrieve_tree:leaf:token',
                  'a leaf takes the token at the running token counter (%s)' % show(b['word']),
                  'leaf token is %s' % show(b['word']))
        rep.check(b['cat'] == cat_t, R, w(rt.fn), 'retrieve_tree:leaf:cat',
                  'a leaf\'s category is categories[item.cat]', 'leaf category is %s' % show(b['cat']))
        incs = [e for e in st.events if e[0] == 'aug' and e[1] == tokidx]
        ok = len(incs) == 1 and incs[0][2] == '+' and incs[0][3] == C(1)
        rep.check(ok, R, w(rt.fn), 'retrieve_tree:leaf:advance', 'the token counter advances by exactly one per leaf',
                  'token counter updates on the leaf path: %s' % [(e[2], show(e[3])) for e in incs])
        for k in ('fin', 'unary', 'binary'):
            bad = [e for e in kinds[k][0][0].events if e[0] in ('aug', 'setitem') and e[1] in (tokidx, tok)]
            rep.check(not bad, R, w(rt.fn), 'retrieve_tree:%s:no-advance' % k,
                      'the token counter is not touched on the %s path' % k,
                      'the token counter is modified on the %s path' % k)
        # every non-fin path nets exactly one tree on the stack and returns item.cat
        for k in ('leaf', 'unary', 'binary'):
            st = kinds[k][0][0]
            stack = st.data.get('stack', [])
            ok = len(stack) == 1 and stack[0][0] == 'call'
            rep.check(ok, R, w(rt.fn), 'retrieve_tree:%s:stack' % k,
                      'the %s path leaves exactly one new tree on the result stack' % k,
                      'the %s path leaves %s on the result stack' % (k, [show(x) for x in stack]))
            ret_ok = st.ret == A(item, 'cat')
            if rt.split:
                # the builder's value is not used as a cache key by its parent (the key is read off the child items):
                # it hands back nothing (stack form) or the tree it built (value form)
                ret_ok = (st.ret is None or st.ret in (C(None), A(item, 'cat'))) if not rt.split['value_mode'] else (st.ret is not None and stack[-1:] == [st.ret])
            rep.check(ret_ok, R, w(rt.fn), 'retrieve_tree:%s:return' % k,
                      'the %s path returns item.cat (used as cache key by the parent)' % k,
                      'the %s path returns %s' % (k, show(st.ret) if st.ret else None))
        # unary / binary children
        st = kinds['unary'][0][0]
        mk = [e[1] for e in st.events if e[0] == 'call' and e[1][1] == A(N('Tree'), 'make_unary')][0]
        b = bind_args(mk, rt.tree_mod.get('Tree.make_unary'))
        rep.check(b['cat'] == cat_t and b['child'] == ('sym', 'subtree', 'left'), R, w(rt.fn), 'retrieve_tree:unary:child',
                  'a unary node has category categories[item.cat] over the tree built from item.left',
                  'unary node is make_unary(%s, %s, ..)' % (show(b['cat']), show(b['child'])))
        st = kinds['binary'][0][0]
        mk = [e[1] for e in st.events if e[0] == 'call' and e[1][1] == A(N('Tree'), 'make_binary')][0]
        b = bind_args(mk, rt.tree_mod.get('Tree.make_binary'))
        ok = (b['cat'] == cat_t and b['left'] == ('sym', 'subtree', 'left') and b['right'] == ('sym', 'subtree', 'right')
              and st.data.get('order') == ['left', 'right'])
        rep.check(ok, R, w(rt.fn), 'retrieve_tree:binary:children',
                  'a binary node has the tree of item.left as left child and of item.right as right child, left visited first',
                  'binary node is make_binary(%s, %s, %s, ..), visit order %s'
                  % (show(b['cat']), show(b['left']), show(b['right']), st.data.get('order')))
    if 'labels' in what:
        for k, maker, fnname in (('unary', 'make_unary', 'Tree.make_unary'), ('binary', 'make_binary', 'Tree.make_binary')):
            st = kinds[k][0][0]
            mk = [e[1] for e in st.events if e[0] == 'call' and e[1][1] == A(N('Tree'), maker)][0]
            b = bind_args(mk, rt.tree_mod.get(fnname))
            # the cached result used for labels: cache[0][key][item.rule_id]
            def res_of(t):
                # X.op_string.decode('utf-8') -> X
                if t[0] == 'call' and t[1][0] == 'attr' and t[1][2] == 'decode':
                    t = t[1][1]
                if t[0] == 'attr':
                    return t[1], t[2]
                return None, None
            rs, fs = res_of(b['op_string'])
            ry, fy = res_of(b['op_symbol'])
            ok = rs is not None and rs == ry and fs == 'op_string' and fy == 'op_symbol'
            rep.check(ok, R, w(rt.fn), 'retrieve_tree:%s:same-result' % k,
                      '%s node label and symbol come from one cached rule result' % k,
                      '%s node label/symbol are %s / %s' % (k, show(b['op_string']), show(b['op_symbol'])))
            if rs is None:
                continue
            second = C(-1) if k == 'unary' else ('sym', 'cat-id-of', 'right')
            okk = False
            detail = show(rs)
            if rs[0] == 'sub' and rs[2] == A(item, 'rule_id') and rs[1][0] == 'sub' and rs[1][1] == S(cache, C(0)):
                key = rs[1][2]
                if key[0] == 'record':
                    f = dict(key[2])
                    sec = f.get('second')
                    # the child's category id: what the recursive call returned for it, or read off the child item itself
                    okk = f.get('first') in (('sym', 'cat-id-of', 'left'), A(A(item, 'left'), 'cat')) and (
                        sec == second or (k == 'unary' and sec in (N('UINT_MAX'), C(-1))) or (k == 'binary' and sec == A(A(item, 'right'), 'cat')))
                    detail = 'cache[(%s, %s)][item.rule_id]' % (show(f.get('first')), show(sec))
            rep.check(okk, R, w(rt.fn), 'retrieve_tree:%s:lookup' % k,
                      'the %s node looks its rule up as cache[(child ids)][item.rule_id]: %s' % (k, detail),
                      'the %s node looks its rule up as %s' % (k, detail))
            if k == 'binary':
                h = b['head_is_left']
                rep.check(h == A(rs, 'head_is_left'), R, w(rt.fn), 'retrieve_tree:binary:head',
                          'the binary node takes head_is_left from the same cached rule result',
                          'the binary node\'s head_is_left is %s' % show(h))


def _run_fn(repo):
    mod = pyx.load(repo)
    return mod, mod.get('run')


def r_category_table(repo, rep, R):
    """category ids are positions in an append-only list; duplicates rejected up front."""
    mod, run = _run_fn(repo)
    params = [a.arg for a in run.args.args]
    if len(params) < 6:
        raise AnalysisError('%s: run() has %d parameters' % (REL, len(params)))
    p_doc, p_scores, p_cats, p_bin, p_un, p_roots = params[:6]
    w = lambda n: '%s:%s run' % (REL, n.lineno)
    # table + index
    table = index = None
    for s in run.body:
        if isinstance(s, ast.Assign) and len(s.targets) == 1 and isinstance(s.targets[0], ast.Name):
            v = src(s.value).replace(' ', '')
            if v in ('copy.copy(%s)' % p_cats, 'list(%s)' % p_cats, '%s[:]' % p_cats, '%s.copy()' % p_cats):
                table = s.targets[0].id
            elif table and isinstance(s.value, ast.DictComp):
                g = s.value.generators[0]
                if src(g.iter).replace(' ', '') == 'enumerate(%s)' % table and isinstance(g.target, ast.Tuple) \
                        and src(s.value.key) == src(g.target.elts[1]) and src(s.value.value) == src(g.target.elts[0]):
                    index = s.targets[0].id
    # duplicate rejection: before the list (or the table / index made from it) is put to any other use --
    #   len(set(cats)) != len(cats)   or, once the position index exists,   len(index) != len(table)
    ok = False
    first_use = None
    setup = set()
    for s in run.body:
        if isinstance(s, ast.Assign) and len(s.targets) == 1 and isinstance(s.targets[0], ast.Name) and s.targets[0].id in (table, index):
            setup.add(id(s))
    lens = lambda x, y: ('len(%s)!=len(%s)' % (x, y), 'len(%s)!=len(%s)' % (y, x))
    accepted = set(lens('set(%s)' % p_cats, p_cats))
    if table and index:
        accepted |= set(lens(index, table)) | set(lens(index, p_cats)) | set(lens('set(%s)' % table, table))
    for s in run.body:
        if isinstance(s, ast.If) and any(isinstance(x, ast.Raise) for x in s.body):
            t = src(s.test).replace(' ', '')
            if t in accepted:
                ok = True
                break
        if id(s) in setup:
            continue
        if any(isinstance(x, ast.Name) and x.id in (p_cats, table, index) for x in ast.walk(s)) and not isinstance(s, ast.FunctionDef):
            first_use = s
            break
    rep.check(ok, R, w(run), 'run:duplicates', 'duplicate categories are rejected before the list is used',
              'the category list is used (line %s) before duplicates are rejected' % getattr(first_use, 'lineno', '?'))
    rep.check(table is not None and index is not None, R, w(run), 'run:table',
              'categories are copied into a private list and indexed by position (id = enumerate index)',
              'private category list / position index not found')
    if not table or not index:
        return None
    # maybe_add_and_get
    adders = []
    for s in run.body:
        if isinstance(s, ast.FunctionDef) and any(
                isinstance(n, ast.Call) and src(n.func) == table + '.append' for n in ast.walk(s)):
            adders.append(s)
    if len(adders) != 1:
        rep.violation(R, w(run), 'run:adder', 'expected one function extending the category list, found %d' % len(adders))
        return None
    add = adders[0]
    a = add.args.args[0].arg
    okp = True
    detail = []
    used_setdefault = False
    for st, out in SymExec(add).run():
        if out == 'raise':
            continue
        conds_ = [(c, pol) for c, pol, _ in st.conds]
        new = logic.implied(conds_, logic.neg(('atom', ('in', N(a), N(index)))))
        known = logic.implied(conds_, ('atom', ('in', N(a), N(index))))
        apps = [e for e in st.events if e[0] == 'call' and e[1][1] == A(N(table), 'append')]
        sets = [e for e in st.events if e[0] == 'setitem' and e[1] == N(index)]
        muts = [e for e in st.events if e[0] in ('del', 'aug') or (e[0] == 'call' and e[1][1][0] == 'attr'
                and e[1][1][1] in (N(table), N(index)) and e[1][1][2] in MUTATORS and e[1][1][2] != 'append')]
        # one look-up that also files the new entry: cat_id = index.setdefault(cat, len(table)); a category is new exactly
        # when what comes back is that very position (every id on file is a position below it)
        SD = ('call', A(N(index), 'setdefault'), (N(a), ('call', N('len'), (N(table),), ())), ())
        sd_pol = [pol for c, pol in conds_ if c in (('cmp', '==', SD, ('call', N('len'), (N(table),), ())), ('cmp', '==', ('call', N('len'), (N(table),), ()), SD))]
        sd_pol += [not pol for c, pol in conds_ if c in (('cmp', '!=', SD, ('call', N('len'), (N(table),), ())), ('cmp', '!=', ('call', N('len'), (N(table),), ()), SD))]
        if sd_pol:
            muts_sd = [e for e in muts if not (e[0] == 'call' and e[1] == SD)]
            i_sd = [i_ for i_, e in enumerate(st.events) if e[0] == 'call' and e[1] == SD]
            if sd_pol[-1]:
                ok = len(apps) == 1 and apps[0][1][2] == (N(a),) and not sets and not muts_sd and bool(i_sd) and i_sd[0] < st.events.index(apps[0])
                detail.append('new (setdefault gave the next position): append=%s' % [show(x[1]) for x in apps])
            else:
                ok = not apps and not sets and not muts_sd
                detail.append('known (setdefault gave an id on file): no change' if ok else 'known: table modified')
            okp = okp and ok and st.ret == SD
            used_setdefault = True
            continue
        if new:
            ok = (len(apps) == 1 and apps[0][1][2] == (N(a),) and len(sets) == 1 and sets[0][2] == N(a) and not muts)
            if ok:
                i_app = st.events.index(apps[0])
                i_set = st.events.index(sets[0])
                val = sets[0][3]
                pre = ('call', N('len'), (N(index),), ())
                post = ('binop', '-', ('call', N('len'), (N(table),), ()), C(1))
                ok = (val == pre) or (val == post and i_app < i_set) or \
                    (val == ('call', N('len'), (N(table),), ()) and i_set < i_app)
            detail.append('new: append=%s id=%s' % ([show(x[1]) for x in apps], [show(x[3]) for x in sets]))
        else:
            ok = not apps and not sets and not muts
            detail.append('known: no change' if ok else 'known: table modified')
        looked_up = (S(N(index), N(a)),) + ((('call', A(N(index), 'get'), (N(a),), ()),) if known else ())
        okp = okp and ok and (st.ret in looked_up or (new and sets and st.ret == sets[0][3]))
    rep.check(okp, R, w(add), 'run:adder:append-only',
              'a new category is appended and gets id = previous table size; known categories change nothing (%s)' % '; '.join(detail),
              'category table update is not append-only with id = position: %s' % '; '.join(detail))
    # no other mutation of table / index anywhere in the module
    bad = []
    for n in ast.walk(mod.tree):
        if isinstance(n, ast.Call) and isinstance(n.func, ast.Attribute) and isinstance(n.func.value, ast.Name) \
                and n.func.value.id in (table, index) and n.func.attr in MUTATORS:
            if not (n.func.value.id == table and n.func.attr == 'append' and add in list(_parents(n))) and \
                    not (used_setdefault and n.func.value.id == index and n.func.attr == 'setdefault' and add in list(_parents(n))):
                bad.append('%s.%s at line %s' % (n.func.value.id, n.func.attr, n.lineno))
        if isinstance(n, (ast.Assign, ast.AugAssign, ast.Delete)):
            tg = n.targets if isinstance(n, (ast.Assign, ast.Delete)) else [n.target]
            for t in tg:
                if isinstance(t, ast.Subscript) and isinstance(t.value, ast.Name) and t.value.id in (table, index):
                    if not (t.value.id == index and add in list(_parents(n))):
                        bad.append('store/delete into %s at line %s' % (t.value.id, n.lineno))
                if isinstance(t, ast.Name) and t.id in (table, index) and not (n in run.body and isinstance(n, ast.Assign)):
                    bad.append('rebinding of %s at line %s' % (t.id, n.lineno))
    rep.check(not bad, R, w(run), 'run:table:no-other-writes', 'nothing else modifies the category list or its index',
              'category table is also modified by: %s' % bad)
    _TABLE[0] = table
    _ADDER[0] = add.name
    return {'table': table, 'index': index, 'adder': add.name, 'params': params}


def _parents(n):
    from .core import parents
    return parents(n)


def r_callbacks(repo, rep, R):
    """both grammar callbacks number results by position from 0 and keep every result; scaffold copies one tuple."""
    mod, run = _run_fn(repo)
    params = [a.arg for a in run.args.args]
    p_bin, p_un = params[3], params[4]
    info = {}
    for s in run.body:
        if not isinstance(s, ast.FunctionDef):
            continue
        calls = [src(n.func) for n in ast.walk(s) if isinstance(n, ast.Call)]
        for kind, p in (('binary', p_bin), ('unary', p_un)):
            if p in calls:
                info[kind] = s
    if set(info) != {'binary', 'unary'}:
        raise AnalysisError('%s: grammar callbacks not found in run()' % REL)
    # who numbers the results: the callbacks (each returns (cat_id, position, result)) or scaffold, which then walks
    # enumerate(callback(x, y)) over (cat_id, result) pairs -- positions from 0 in the order the grammar returned them
    sc_ = mod.get('scaffold')
    sps_ = [a.arg for a in sc_.args.args]
    numbered_by_scaffold = False
    for st_, out_ in SymExec(sc_).run():
        for e_ in st_.events:
            if e_[0] == 'loop-enter' and e_[1][0] == 'call' and e_[1][1] == N('enumerate') and e_[1][2] and e_[1][2][0] == ('call', N(sps_[0]), (N(sps_[1]), N(sps_[2])), ()):
                numbered_by_scaffold = True
    for kind, fn in info.items():
        w = '%s:%s run.%s' % (REL, fn.lineno, fn.name)
        ids = [a.arg for a in fn.args.args]
        paths = [(st, out) for st, out in SymExec(fn, unroll=1, no_inline=(_ADDER[0],)).run()]
        rets = [st.ret for st, out in paths if out == 'return']
        ok = len(paths) == 1 and len(rets) == 1 and rets[0] is not None and rets[0][0] == 'listcomp' and len(rets[0][2]) == 1
        detail = '%d paths, returning %s' % (len(paths), [show(r)[:100] if r else None for r in rets])
        if ok:
            r = rets[0]
            it, filt = r[2][0]
            nargs = 2 if kind == 'binary' else 1
            want_args = tuple(S(N(_TABLE[0]), N(i)) for i in ids[:nargs])
            gram = ('call', N(p_bin if kind == 'binary' else p_un), want_args, ())
            detail = 'iterates %s%s' % (show(it), ' filtered by %s' % [show(c) for c in filt] if filt else '')
            if numbered_by_scaffold:
                ok = it == gram and not filt
                if ok:
                    elt = r[1]
                    is_elem = lambda t: t[0] == 'elem' and t[1] == it
                    ok = (elt[0] == 'tuple' and len(elt[1]) == 2 and is_elem(elt[1][1])
                          and elt[1][0] == ('call', N(_ADDER[0]), (A(elt[1][1], 'cat'),), ()))
                    detail += '; each element is %s (positions are given by scaffold)' % show(elt)
            else:
                ok = (it == ('call', N('enumerate'), (gram,), ()) or it == ('call', N('enumerate'), (gram, C(0)), ())
                      or it == ('call', N('enumerate'), (gram,), (('start', C(0)),))) and not filt
                if ok:
                    elt = r[1]
                    is_elem = lambda t: t[0] == 'elem' and t[1] == it
                    ok = (elt[0] == 'tuple' and len(elt[1]) == 3
                          and elt[1][1][0] == 'unpack' and is_elem(elt[1][1][1]) and elt[1][1][2] == 0
                          and elt[1][2][0] == 'unpack' and is_elem(elt[1][2][1]) and elt[1][2][2] == 1
                          and elt[1][0] == ('call', N(_ADDER[0]), (A(elt[1][2], 'cat'),), ()))
                    detail += '; each element is %s' % show(elt)
        rep.check(ok, R, w, 'run:%s-callback:positions' % kind,
                  '%s callback returns (cat_id, position, result) for every grammar result, positions from 0 (%s)' % (kind, detail),
                  '%s callback does not enumerate every result from 0: %s' % (kind, detail))
    # scaffold
    sc = mod.get('scaffold')
    ps = [a.arg for a in sc.args.args]
    w = '%s:%s scaffold' % (REL, sc.lineno)
    paths = [st for st, out in SymExec(sc).run() if any(e[0] == 'loop-enter' for e in st.events)]
    ok = len(paths) == 1
    detail = ''
    if ok:
        st = paths[0]
        loop = [e for e in st.events if e[0] == 'loop-enter'][0]
        it = loop[1]
        call_ = ('call', N(ps[0]), (N(ps[1]), N(ps[2])), ())
        elem = ('elem', it, loop[2].lineno)
        sets = {e[2]: e[3] for e in st.events if e[0] == 'setattr'}
        if numbered_by_scaffold:
            ok = it in (('call', N('enumerate'), (call_,), ()), ('call', N('enumerate'), (call_, C(0)), ()), ('call', N('enumerate'), (call_,), (('start', C(0)),)))
            pair = ('unpack', elem, 1)
            res, cat_t, pos_t = ('unpack', pair, 1), ('unpack', pair, 0), ('unpack', elem, 0)
        else:
            ok = it == call_
            res, cat_t, pos_t = ('unpack', elem, 2), ('unpack', elem, 0), ('unpack', elem, 1)
        want = {'cat_id': cat_t, 'rule_id': pos_t, 'head_is_left': A(res, 'head_is_left'),
                'op_string': ('call', A(A(res, 'op_string'), 'encode'), (C('utf-8'),), ()),
                'op_symbol': ('call', A(A(res, 'op_symbol'), 'encode'), (C('utf-8'),), ())}
        ok = ok and sets == want
        pushes = [e[1] for e in st.events if e[0] == 'call' and is_method_call(e[1], 'push_back') and e[1][1][1] == N(ps[3])]
        ok = ok and len(pushes) == 1
        detail = '; '.join('%s=%s' % (k, show(v)) for k, v in sorted(sets.items()))
    rep.check(ok, R, w, 'scaffold:copy', 'scaffold copies id, position, head flag, label and symbol of one and the same result tuple (%s)' % detail,
              'scaffold does not copy all five fields from one result tuple: %s' % detail)


_TABLE = ['categories_']
_ADDER = ['maybe_add_and_get']


def r_sentence_loop(repo, rep, R, table_info):
    """one result list per sentence, in order; per-sentence buffers; failure placeholder; status handling."""
    mod, run = _run_fn(repo)
    params = [a.arg for a in run.args.args]
    p_doc, p_scores = params[0], params[1]
    if table_info:
        _TABLE[0] = table_info['table']
        _ADDER[0] = table_info['adder']
    K = RetrieveTree(repo).keys
    loops = [s for s in run.body if isinstance(s, ast.For)]
    sent = [l for l in loops if any(isinstance(n, ast.Call) and src(n.func) == 'parse_sentence' for n in ast.walk(l))]
    if len(sent) != 1:
        raise AnalysisError('%s: sentence loop calling parse_sentence not found' % REL)
    loop = sent[0]
    w = lambda n: '%s:%s run' % (REL, n.lineno)
    # iteration source: zip(doc, scoring_results) in order (possibly through list()/tqdm())
    init = {}
    ex = SymExec(run, unroll=1, no_inline=(_ADDER[0],))
    paths = ex.run()
    entered = [(st, out) for st, out in paths if any(e[0] == 'loop-enter' and e[-1] is loop for e in st.events)]
    skipped = [(st, out) for st, out in paths if any(e[0] == 'loop-skip' and e[-1] is loop for e in st.events)]
    if not entered:
        raise AnalysisError('%s: no path enters the sentence loop' % REL)
    it = [e for e in entered[0][0].events if e[0] == 'loop-enter' and e[-1] is loop][0][1]
    z = ('call', N('zip'), (N(p_doc), N(p_scores)), ())
    inner = it
    wrappers = []
    while inner != z and inner[0] == 'call' and inner[2]:
        wrappers.append(show(inner[1]))
        inner = inner[2][0]
    ok = inner == z and all(x in ('tqdm', 'list', 'iter', 'tuple') for x in wrappers)
    rep.check(ok, R, w(loop), 'run:loop:source', 'sentences are visited in input order, paired positionally with their scores (%s)' % show(it),
              'sentence loop iterates %s' % show(it))
    # result list
    acc = None
    for st, out in entered:
        if out == 'return' and st.ret and st.ret[0] == 'alloc':
            acc = st.ret
    rep.check(acc is not None, R, w(run), 'run:result-list', 'run() returns a list created in this call', 'run() does not return a fresh list')
    if acc is None:
        return
    fresh_per_sentence = True
    counts = []
    failure_values = []
    for st, out in entered:
        evs = st.events
        i0 = [i for i, e in enumerate(evs) if e[0] == 'loop-enter' and e[-1] is loop][0]
        i1 = [i for i, e in enumerate(evs) if e[0] == 'loop-exit' and e[-1] is loop]
        seg = evs[i0:(i1[0] if i1 else len(evs))]
        apps = [e[1] for e in seg if e[0] == 'call' and is_method_call(e[1], 'append') and e[1][1][1] == acc]
        if out == 'raise':
            continue
        counts.append(len(apps))
        ps_call = [e[1] for e in seg if e[0] == 'call' and e[1][1] == N('parse_sentence')]
        status_fail = _search_failed(repo, st, ps_call)
        too_long = _too_long(st)
        for a in apps:
            v = a[2][0]
            if status_fail or too_long:
                leaf_ok, inf_ok = placeholder_shape(v)
                failure_values.append(v)
                rep.check(leaf_ok or inf_ok, R, w(loop), 'run:loop:failure-placeholder:%s' % ('status' if status_fail else 'length'),
                          'a sentence that %s yields only its own failure placeholder' % ('fails to parse' if status_fail else 'is too long'),
                          'a failing sentence appends %s' % show(v))
            elif ps_call:
                # success: [ScoredTree(tree=t, score=s) for t, s in zip(results, scores)]
                args = ps_call[0][2]
                fa = [x for x in args if x[0] == 'dict']
                okz = False
                detail = show(v)
                if len(fa) == 1:
                    d = {k[1]: val for k, val in fa[0][1] if k and k[0] == 'const'}
                    stk, scs = d.get(K['stack']), d.get(K['scores'])
                    if stk and scs and stk[0] == 'alloc' and scs[0] == 'alloc' and stk != scs:
                        # created by a statement of the loop body (a worker read in place keeps its own line numbers)
                        inside = {getattr(n, 'lineno', None) for n in ast.walk(loop) if isinstance(n, ast.stmt)}
                        at = lambda a_: a_[2][0] if isinstance(a_[2], tuple) else a_[2]
                        fresh_per_sentence = fresh_per_sentence and at(stk) in inside and at(scs) in inside and at(stk) != loop.lineno != at(scs)
                        if v[0] == 'listcomp' and len(v[2]) == 1:
                            zi = v[2][0][0]
                            el = ('elem', zi, None)
                            okz = zi == ('call', N('zip'), (stk, scs), ()) and not v[2][0][1]
                            e = v[1]
                            if okz and e[0] == 'call' and e[1] == N('ScoredTree'):
                                kw_ = dict(e[3])
                                pos = list(e[2])
                                tr = kw_.get('tree', pos[0] if pos else None)
                                sc = kw_.get('score', pos[1] if len(pos) > 1 else None)
                                okz = (tr is not None and sc is not None and tr[0] == 'unpack' and tr[2] == 0
                                       and sc[0] == 'unpack' and sc[2] == 1 and tr[1][0] == 'elem' and tr[1][1] == zi)
                            else:
                                okz = False
                    d_tok, d_cat = d.get(K['tokens']), d.get(K['categories'])
                    rep.check(d_tok is not None and d_tok[0] == 'unpack' and d_tok[2] == 0
                              and d_cat is not None and d_cat in (N(_TABLE[0]), st.env.get(_TABLE[0])), R, w(loop), 'run:loop:finalizer-args',
                              'the finalizer gets this sentence\'s tokens and the shared category table',
                              'finalizer args are tokens=%s categories=%s' % (show(d_tok or C(None)), show(d_cat or C(None))))
                rep.check(okz, R, w(loop), 'run:loop:zip', 'trees and scores of a sentence are paired positionally from buffers created for that sentence (%s)' % detail,
                          'the result of a parsed sentence is %s' % detail)
            else:
                # neither too long nor handed to the search: an answer made up in the glue code (no beam, no allowed roots,
                # no unary rules, no category dictionary, another score)
                rep.check(False, R, w(loop), 'run:loop:every-sentence-searched', '',
                          'a sentence that is not too long gets a result without parse_sentence being called: %s (under %s)'
                          % (show(v)[:120], '; '.join('%s%s' % ('' if pol else 'not ', show(c)[:50]) for c, pol, _ in st.conds[-2:])))
    rep.check(counts and all(c == 1 for c in counts), R, w(loop), 'run:loop:one-result',
              'every non-raising path through the sentence loop appends exactly one result list (%d paths)' % len(counts),
              'append counts per path through the sentence loop: %s' % sorted(set(counts)))
    rep.check(fresh_per_sentence, R, w(loop), 'run:loop:fresh-buffers', 'tree and score buffers are created inside the sentence loop',
              'tree/score buffers are created outside the sentence loop and carry over between sentences')
    # the placeholder itself
    ok = bool(failure_values) and all(placeholder_shape(v)[1] for v in failure_values)
    detail = '; '.join(sorted({show(v)[:120] for v in failure_values})) or 'no failing path appends anything'
    rep.check(ok, R, w(run), 'run:failed', 'the failure placeholder is a fresh one-element list whose score is minus infinity (%s)' % detail,
              'failure placeholder is %s' % detail)
    # status test form
    return {'paths': len(entered)}


def _is_zero(st, call):
    """has the path established `call == 0` (True) / `call != 0` (False)?  None when it has not tested it"""
    for c, pol, _ in st.conds:
        if c == call:
            return not pol
        if c == ('unop', 'not', call):
            return pol
        if c[0] == 'cmp' and c[2] == call and c[3] == C(0):
            if c[1] == '==':
                return pol
            if c[1] in ('!=', '>'):
                return not pol
            if c[1] == '<=':
                return pol
        if c[0] == 'cmp' and c[3] == call and c[2] == C(0):
            if c[1] == '==':
                return pol
            if c[1] in ('!=', '<'):
                return not pol
    return None


def _status_mode(repo):
    """what parse_sentence hands back: 'status' (0 = parsed, non-zero = no parse) or 'count' (the number of parses, 0 = no
    parse) -- read off the header (rules_cxx.status_mode)"""
    mode = getattr(repo, '_status_mode', None)
    if mode is None:
        try:
            from .parse_model import ParseModel
            from . import rules_cxx
            mode = rules_cxx.status_mode(ParseModel(repo))
        except AnalysisError:
            mode = 'status'
        try:
            repo._status_mode = mode
        except Exception:
            pass
    return mode


def _search_failed(repo, st, ps_call):
    """the path treats the search of this sentence as failed: a non-zero status, or -- when the header reports the number
    of parses -- a count of zero"""
    if not ps_call:
        return False
    z = _is_zero(st, ps_call[0])
    if z is None:
        return False
    return z if _status_mode(repo) == 'count' else not z


def _too_long(st):
    """the path has established  len(tokens) > <the max_length option>"""
    for c, pol, _ in st.conds:
        f = logic.formula(c)
        if not pol:
            f = logic.neg(f)
        if f[0] == 'atom' and f[1][0] == 'lt' and 'max_length' in show(f[1][1]) and f[1][2][0] == 'call' and f[1][2][1] == N('len'):
            return True
    return False


NEG_INF = {('unop', '-', ('call', N('float'), (C('inf'),), ())), ('call', N('float'), (C('-inf'),), ()),
           ('unop', '-', A(N('math'), 'inf')), ('unop', '-', A(N('numpy'), 'inf')), ('unop', '-', A(N('np'), 'inf'))}


def placeholder_shape(v):
    """(single_leaf, neg_inf) for the value a failing sentence contributes: a list made at that point (literal, so fresh
    for every sentence) of one ScoredTree whose tree is one terminal with a constant word and a plain atomic category,
    and whose score is minus infinity.  Helper functions building it have been inlined by the walker."""
    if not (v[0] == 'list' and len(v[1]) == 1 and v[1][0][0] == 'call' and v[1][0][1] == N('ScoredTree')):
        return False, False
    kw_ = dict(v[1][0][3])
    pos = list(v[1][0][2])
    tr = kw_.get('tree', pos[0] if pos else None)
    sc = kw_.get('score', pos[1] if len(pos) > 1 else None)
    is_term = tr is not None and tr[0] == 'call' and tr[1] == A(N('Tree'), 'make_terminal')
    leaf = False
    if is_term and len(tr[2]) == 2 and not tr[3]:
        wd, ct = tr[2]
        leaf = wd[0] == 'const' and isinstance(wd[1], str) and ct[0] == 'call' and ct[1] == A(N('Category'), 'parse') and \
            bool(ct[2]) and ct[2][0][0] == 'const' and isinstance(ct[2][0][1], str) and not any(ch in ct[2][0][1] for ch in '/\\|[]()')
    return leaf, (sc in NEG_INF and is_term)


def failure_values(repo):
    """values appended to run()'s result on paths where a sentence is too long or parse_sentence reports failure"""
    mod, run = _run_fn(repo)
    loops = [s for s in run.body if isinstance(s, ast.For)
             and any(isinstance(n, ast.Call) and src(n.func) == 'parse_sentence' for n in ast.walk(s))]
    if len(loops) != 1:
        raise AnalysisError('%s: sentence loop calling parse_sentence not found' % REL)
    loop = loops[0]
    out = []
    for st, o in SymExec(run, unroll=1, no_inline=(_ADDER[0],)).run():
        if o == 'raise' or not (st.ret and st.ret[0] == 'alloc'):
            continue
        acc = st.ret
        ps_call = [e[1] for e in st.events if e[0] == 'call' and e[1][1] == N('parse_sentence')]
        status_fail = _search_failed(repo, st, ps_call)
        too_long = _too_long(st)
        if status_fail or too_long:
            out.extend((e[1][2][0], e[-1]) for e in st.events if e[0] == 'call' and is_method_call(e[1], 'append') and e[1][1][1] == acc)
    return run, out


def r_failed_placeholder(repo, rep, R):
    """the failure placeholder is one fresh single-leaf tree (word constant, plain atomic category) with score -inf:
    every printer handles a leaf, none needs a rule label for it."""
    run, vals = failure_values(repo)
    w = '%s:%s run' % (REL, vals[0][1].lineno if vals else run.lineno)
    detail = '; '.join(sorted({show(v)[:120] for v, _ in vals})) or 'no failing path appends a value'
    ok = bool(vals) and all(placeholder_shape(v)[0] for v, _ in vals)
    rep.check(ok, R, w, 'run:failed:single-leaf', 'the failure placeholder is a single leaf with a constant word and a plain atomic category (%s)' % detail,
              'the failure placeholder is not a single constant leaf: %s -- printers would need labels / token fields it does not have' % detail)


def r_tree_factories(repo, rep, R):
    """Tree.make_terminal / make_unary / make_binary each return a NEW Tree built from exactly their own arguments, and
    Tree.__init__ stores them unchanged; the class keeps no shared state."""
    tm = repo.module('depccg/tree.py')
    cls = tm.get('Tree')
    spec = {
        'make_terminal': lambda a: [('call', N('Tree'), (N('cat'), ('list', (t,)), N('op_string'), N('op_symbol')), ()) for t in
                                    (N('word'), ('call', N('Token'), (), (('word', N('word')),)))],
        'make_unary': lambda a: [('call', N('Tree'), (N('cat'), ('list', (N('child'),)), N('op_string'), N('op_symbol')), ())],
        'make_binary': lambda a: [('call', N('Tree'), (N('cat'), ('list', (N('left'), N('right'))), N('op_string'), N('op_symbol'), N('head_is_left')), ())],
    }
    for name, mk in spec.items():
        fn = tm.get('Tree.' + name)
        w = '%s:%s Tree.%s' % (tm.rel, fn.lineno, name)
        want = mk(None)
        vals = path_values(SymExec(fn).run())

        def norm(t):
            # keyword form Tree(cat=..., children=...) -> positional
            if t and t[0] == 'call' and t[1] == N('Tree') and t[3]:
                order = ['cat', 'children', 'op_string', 'op_symbol', 'head_is_left']
                kw = dict(t[3])
                pos = list(t[2]) + [kw[k] for k in order[len(t[2]):] if k in kw]
                return ('call', N('Tree'), tuple(pos), ())
            return t
        ok = bool(vals) and all(norm(r) in want for _, r in vals) and (name != 'make_terminal' or {norm(r) for _, r in vals} == set(want))
        rep.check(ok, R, w, 'Tree.%s:fresh' % name, 'Tree.%s returns a new Tree built from its own arguments' % name,
                  'Tree.%s returns %s' % (name, [show(r)[:70] for _, r in vals]))
        if name == 'make_terminal':
            is_tok = logic.formula(('call', N('isinstance'), (N('word'), N('Token')), ()))
            okc = bool(vals)
            for conds, r in vals:
                as_is = norm(r) == want[0]
                okc = okc and (logic.implied(conds, is_tok) if as_is else logic.excluded(conds, is_tok))
            rep.check(okc, R, w, 'Tree.make_terminal:token', 'a Token argument is used as is, any other word is wrapped into Token(word=...)',
                      'make_terminal does not choose between the word itself and Token(word=word) by isinstance(word, Token)')
    init = tm.get('Tree.__init__')
    w = '%s:%s Tree.__init__' % (tm.rel, init.lineno)
    for st, o in SymExec(init).run():
        sets = {e[2]: e[3] for e in st.events if e[0] == 'setattr' and e[1] == N('self')}
        want = {k: N(k) for k in ('cat', 'children', 'op_string', 'op_symbol', 'head_is_left')}
        rep.check(sets == want, R, w, 'Tree.__init__:stores', 'Tree.__init__ stores category, children, label, symbol and head flag unchanged',
                  'Tree.__init__ stores %s' % {k: show(v)[:30] for k, v in sets.items()})
        break
    shared = [src(s_)[:50] for s_ in cls.body if isinstance(s_, (ast.Assign, ast.AnnAssign)) and not (isinstance(s_, ast.AnnAssign) and s_.value is None)]
    rep.check(not shared, R, '%s:%s Tree' % (tm.rel, cls.lineno), 'Tree:no-class-state', 'class Tree has no class-level (shared) state',
              'class Tree keeps shared state: %s' % shared)


def r_call_locals(repo, rep, R):
    """the id-keyed C++ containers handed to parse_sentence (root-id set, rule cache, config) are declared inside run():
    ids are positions in this call's category table, so nothing keyed by them may outlive the call."""
    mod, run = _run_fn(repo)
    w = '%s:%s run' % (REL, run.lineno)
    seen = False
    for st, out in SymExec(run, unroll=1, no_inline=(_ADDER[0],)).run():
        calls = [e[1] for e in st.events if e[0] == 'call' and e[1][1] == N('parse_sentence')]
        if not calls:
            continue
        seen = True
        a = calls[0][2]
        if len(a) != 11:
            raise AnalysisError('%s: parse_sentence is called with %d arguments' % (REL, len(a)))
        for idx, what in ((3, 'allowed-root id set'), (9, 'rule cache'), (10, 'search configuration')):
            t = a[idx]
            ok = t[0] == 'call' and t[1] == N('__cdecl__')
            if not ok and t[0] == 'record' and what == 'search configuration':
                ok = True       # a struct filled field by field in a helper and handed back by value: a local of this call all the same
            rep.check(ok, R, w, 'run:call-local:%s' % what.replace(' ', '-'),
                      'the %s handed to the search is a local of this run() call' % what,
                      'the %s handed to the search is %s, not a variable declared inside run(): category ids are only valid within one call'
                      % (what, show(t)[:60]))
        break
    if not seen:
        raise AnalysisError('%s: no path of run() calls parse_sentence' % REL)
    globs = [n for n in ast.walk(run) if isinstance(n, (ast.Global, ast.Nonlocal))]
    rep.check(not globs, R, w, 'run:no-global', 'run() declares no global state', 'run() writes module state: global %s' % [g.names for g in globs])


def r_score_buffers(repo, rep, R):
    """the two score matrices are handed to the C++ search as raw pointers and read there densely, row after row: the
    Python-side buffers must be declared 2-d, float and C-contiguous (Cython then rejects anything else up front)."""
    mod, run = _run_fn(repo)
    calls = [(n, {}) for n in ast.walk(run) if isinstance(n, ast.Call) and src(n.func) == 'parse_sentence']
    if not calls:
        # the per-sentence part may sit in a private module-level helper: its pointer parameters stand for what
        # run() passes at the call site
        for c in ast.walk(run):
            h = mod.get(c.func.id) if isinstance(c, ast.Call) and isinstance(c.func, ast.Name) else None
            if isinstance(h, ast.FunctionDef) and not c.keywords and len(c.args) == len(h.args.args):
                bind = dict(zip([a.arg for a in h.args.args], c.args))
                calls += [(n, bind) for n in ast.walk(h) if isinstance(n, ast.Call) and src(n.func) == 'parse_sentence']
    if not calls:
        raise AnalysisError('%s: run() does not call parse_sentence' % REL)
    decls = {}
    assigns = {}
    for n in ast.walk(run):
        if isinstance(n, ast.Assign):
            is_decl = isinstance(n.value, ast.Call) and src(n.value.func) == '__cdecl__'
            for t in n.targets:
                for x in ast.walk(t):
                    if isinstance(x, ast.Name) and isinstance(x.ctx, ast.Store):
                        if is_decl:
                            decls[x.id] = n.value.args[0].value
                        elif t is x:
                            assigns.setdefault(x.id, []).append(n.value)
    for call, bind in calls:
        for idx, what in ((0, 'tag'), (1, 'dependency')):
            e = call.args[idx]
            if isinstance(e, ast.Name) and e.id in bind:
                e = bind[e.id]
            hops = 0
            while isinstance(e, ast.Name) and len(assigns.get(e.id, [])) == 1 and hops < 4:
                e = assigns[e.id][0]
                hops += 1
            w = '%s:%s run' % (REL, call.lineno)
            key = 'run:buffer:%s' % what
            if isinstance(e, ast.Attribute) and e.attr == 'data' and isinstance(e.value, ast.Name):
                ty = decls.get(e.value.id, '').replace(' ', '').replace('"', "'")
                producers = [src(v.func) for v in assigns.get(e.value.id, []) if isinstance(v, ast.Call)]
                contiguous = "mode='c'" in ty.lower() or any(p_.split('.')[-1] in ('ascontiguousarray',) for p_ in producers)
                ok = contiguous and (not ty or ('ndim=2' in ty and ty.startswith(('np.ndarray[float,', 'np.ndarray[np.float32_t,', 'numpy.ndarray[float,'))))
                rep.check(ok, R, w, key, 'the %s score matrix whose .data pointer goes to the search is declared %s' % (what, ty or producers),
                          'the %s score matrix is handed to the search as a raw pointer but its buffer is declared %r: a non-contiguous or '
                          'differently typed array would be read with the wrong layout' % (what, ty or 'without a type'))
            elif isinstance(e, ast.Subscript) and isinstance(e.value, ast.Name) and decls.get(e.value.id, '').replace(' ', '').endswith(',::1]'):
                rep.check(True, R, w, key, 'the %s score matrix is a C-contiguous typed memoryview (%s)' % (what, decls[e.value.id]), '')
            elif isinstance(e, ast.Subscript) and isinstance(e.value, ast.Name) and '[:' in decls.get(e.value.id, '').replace(' ', ''):
                rep.check(False, R, w, key, '', 'the %s score matrix is handed to the search as the address of its first element, but the view is declared %r: '
                          'that accepts strided and transposed arrays (a column slice, a Fortran-ordered matrix) without copying, and the search reads the memory '
                          'behind the pointer as dense rows -- it ranks numbers that are not the scores of that word' % (what, decls[e.value.id]))
            else:
                raise AnalysisError('%s: cannot tell how the %s score pointer %s is obtained' % (REL, what, src(call.args[idx])))


def r_root_ids(repo, rep, R, table_info):
    mod, run = _run_fn(repo)
    params = [a.arg for a in run.args.args]
    p_roots = params[5]
    ok = False
    for s in run.body:
        if isinstance(s, ast.For) and src(s.iter) == p_roots:
            txt = [src(x) for x in s.body]
            ok = any('insert(' in t for t in txt) and any(table_info['adder'] + '(' in t for t in txt)
    rep.check(ok, R, '%s:%s run' % (REL, run.lineno), 'run:roots', 'allowed roots are translated to ids through the same table',
              'root categories are not registered through the category table')


CONFIG_FIELDS = ['num_tags', 'unary_penalty', 'beta', 'use_beta', 'pruning_size', 'nbest', 'max_step']


def config_reader(mod):
    """the function that fills the search configuration from the option dictionary: `init_config(cfg, kwargs)`, or -- by
    role -- the one module-level function that stores most of the configuration fields as attributes of one name (a pointer
    parameter, or a struct declared in the function and returned by value).  -> (function, struct name, dictionary name)"""
    ic = mod.get('init_config', required=False)
    if ic is not None and len(ic.args.args) >= 2:
        return ic, ic.args.args[0].arg, ic.args.args[1].arg
    cands = []
    for f_ in mod.tree.body:
        if not isinstance(f_, ast.FunctionDef):
            continue
        by_name = {}
        for n_ in ast.walk(f_):
            if isinstance(n_, ast.Assign):
                for t_ in n_.targets:
                    if isinstance(t_, ast.Attribute) and isinstance(t_.value, ast.Name) and t_.attr in CONFIG_FIELDS:
                        by_name.setdefault(t_.value.id, set()).add(t_.attr)
        for nm_, flds_ in by_name.items():
            if len(flds_) >= 5:
                ps_ = [a_.arg for a_ in f_.args.args if a_.arg != nm_]
                if len(ps_) == 1:
                    cands.append((f_, nm_, ps_[0]))
    if len(cands) != 1:
        raise AnalysisError('%s: the function that fills the search configuration was not found' % REL)
    return cands[0]


def r_config_once(repo, rep, R):
    """the options of a call are read into the search configuration once, before the first sentence: the reader may
    consume the option dictionary (pop), so reading it again per sentence silently falls back to the defaults from the
    second sentence on"""
    mod = pyx.load(repo)
    run = mod.get('run')
    ic = config_reader(mod)[0]
    calls = [c for c in ast.walk(run) if isinstance(c, ast.Call) and isinstance(c.func, ast.Name) and c.func.id == ic.name]
    consumes = any(isinstance(c, ast.Call) and isinstance(c.func, ast.Attribute) and c.func.attr in ('pop', 'popitem', 'clear') for c in ast.walk(ic))
    w = '%s:%s run' % (REL, calls[0].lineno if calls else run.lineno)
    if not calls:
        raise AnalysisError('%s: run does not call %s' % (REL, ic.name))
    in_loop = []
    for c in calls:
        p_ = getattr(c, '_parent', None)
        while p_ is not None and p_ is not run:
            if isinstance(p_, (ast.For, ast.While)):
                in_loop.append(c)
                break
            p_ = getattr(p_, '_parent', None)
    rep.check(len(calls) == 1 and not in_loop, R, w, 'run:config-once',
              'the search configuration is filled once per call, before the sentence loop',
              'the options are read %s: %s' % ('inside the sentence loop' if in_loop else '%d times' % len(calls),
                                               'the reader removes what it reads from the option dictionary, so every sentence after the first is parsed with the default '
                                               'penalty / beam / n-best settings' if consumes else 'sentences of one call may be parsed with different settings'))


def r_kwargs_not_captured(repo, rep, R):
    """the options reach the compiled run() as keyword arguments and are read there from its `**kwargs` dictionary (by
    run itself: the max_length test; by the configuration reader: beta, nbest, ..): none of these names may also be a
    named parameter of run -- a named parameter takes the value out of the dictionary, and the read falls back to
    'absent' / the default without any error"""
    mod = pyx.load(repo)
    run = mod.get('run')
    kw = run.args.kwarg.arg if run.args.kwarg is not None else None
    named = {a.arg for a in run.args.posonlyargs + run.args.args + run.args.kwonlyargs}
    if kw is None:
        return
    readers = [(run, kw)]
    try:
        ic, _cfg, kwp = config_reader(mod)
        readers.append((ic, kwp))
    except AnalysisError:
        pass
    keys = {}
    for fn, name in readers:
        for n in ast.walk(fn):
            k = None
            if isinstance(n, ast.Subscript) and isinstance(n.value, ast.Name) and n.value.id == name and isinstance(n.slice, ast.Constant):
                k = n.slice.value
            elif isinstance(n, ast.Call) and isinstance(n.func, ast.Attribute) and isinstance(n.func.value, ast.Name) and n.func.value.id == name \
                    and n.func.attr in ('get', 'pop', 'setdefault') and n.args and isinstance(n.args[0], ast.Constant):
                k = n.args[0].value
            elif isinstance(n, ast.Compare) and len(n.ops) == 1 and isinstance(n.ops[0], (ast.In, ast.NotIn)) and isinstance(n.left, ast.Constant) \
                    and isinstance(n.comparators[0], ast.Name) and n.comparators[0].id == name:
                k = n.left.value
            if isinstance(k, str):
                keys.setdefault(k, n.lineno)
    captured = sorted(k for k in keys if k in named)
    rep.check(not captured, R, '%s:%s run' % (REL, run.lineno), 'run:kwargs-not-captured',
              'none of the %d option names read from **%s is also a named parameter of run' % (len(keys), kw),
              'the option(s) %s are read from **%s (line %s) but run() also declares them as named parameters: the value never reaches the dictionary, the read sees the '
              'option as absent (an over-long sentence is searched instead of getting the placeholder / the default is used whatever the caller passed)'
              % (captured, kw, [keys[k] for k in captured]))
    return len(keys)


def r_config_plumbing(repo, rep, R):
    r_kwargs_not_captured(repo, rep, R)
    """option names travel unchanged: parsing.run kwargs -> _parsing.run(**kwargs) -> init_config -> struct config."""
    r_config_once(repo, rep, R)
    mod = pyx.load(repo)
    ic, cfgp, kwp = config_reader(mod)
    reads = {}
    for st, out in SymExec(ic).run():
        for e in st.events:
            if e[0] == 'setattr' and (e[1] == N(cfgp) or (cfgp not in [a_.arg for a_ in ic.args.args] and (
                    (e[1][0] == 'call' and e[1][1] == N('__cdecl__')) or (e[1][0] == 'record' and e[1][1] == cfgp)))):
                v = e[3]
                key = None
                if v[0] == 'sub' and v[1] == N(kwp) and v[2][0] == 'const':
                    key = v[2][1]
                elif v[0] == 'call' and v[1][0] == 'attr' and v[1][1] == N(kwp) and v[1][2] in ('pop', 'get') and v[2]:
                    key = v[2][0][1] if v[2][0][0] == 'const' else None
                reads[e[2]] = key
    w = '%s:%s %s' % (REL, ic.lineno, ic.name)
    want = list(CONFIG_FIELDS)
    for f in want:
        rep.check(reads.get(f) == f, R, w, 'init_config:' + f, 'config.%s is read from option %r' % (f, f),
                  'config.%s is read from %r' % (f, reads.get(f)))
    pm = repo.module('depccg/parsing.py')
    prun = pm.get('run')
    pparams = {a.arg for a in prun.args.args}
    TARGET = A(A(N('depccg'), '_parsing'), 'run')
    direct, pooled = [], []
    for st, out in SymExec(prun, unroll=1).run():
        for c_ in all_calls(st):
            if c_[1] == TARGET and c_ not in direct:
                direct.append(c_)
            if c_[1][0] == 'attr' and c_[1][2] == 'apply_async' and c_[2] and c_[2][0] == TARGET and c_ not in pooled:
                pooled.append(c_)
    w2 = 'depccg/parsing.py:%s run' % prun.lineno
    rep.check(bool(direct) and bool(pooled), R, w2, 'parsing.run:sites', 'both the in-process and the pooled path call depccg._parsing.run',
              'found %d in-process and %d pooled uses of depccg._parsing.run' % (len(direct), len(pooled)))
    # the option dictionary: the ** argument of the in-process call
    dicts = []
    for c_ in direct:
        stars = [v for k, v in c_[3] if k is None]
        if not stars and c_[3] and all(k is not None for k, _ in c_[3]):
            # the walker has spelt `**{'a': x, ..}` out as keywords a=x, ..
            stars = [('dict', tuple((C(k), v) for k, v in c_[3]))]
        rep.check(len(stars) == 1 and stars[0][0] == 'dict', R, w2, 'parsing.run:direct:kwargs', 'the in-process call passes the option dictionary as **kwargs',
                  'the in-process call does not pass one literal option dictionary with ** (%s)' % [show(v)[:40] for v in stars])
        dicts += [v for v in stars if v[0] == 'dict']
    # every in-process call gets the same options: a further call that overrides one (a second pass with the beam
    # switched off, ..) returns trees the caller's settings do not allow
    differing = [show(d_)[:70] for d_ in dicts[1:] if d_ != dicts[0]]
    rep.check(not differing, R, w2, 'parsing.run:direct:one-dictionary', 'all in-process calls of depccg._parsing.run pass the one option dictionary',
              'depccg._parsing.run is also called with other options than the caller gave: %s' % differing[:2])
    # one pass: run() does not call itself for some of the sentences with other settings (a retry of failed sentences with the
    # beam switched off, with whatever options the inner call happens to spell out)
    again = [n_ for n_ in ast.walk(prun) if isinstance(n_, ast.Call) and isinstance(n_.func, ast.Name) and n_.func.id == prun.name]
    rep.check(not again, R, 'depccg/parsing.py:%s run' % (again[0].lineno if again else prun.lineno), 'parsing.run:single-pass',
              'run() parses every sentence once, with the options of this call',
              'run() calls itself (`%s`): some sentences are parsed a second time with other options, and their trees / scores are not those of the settings the caller gave'
              % (src(again[0])[:60] if again else ''))
    for c_ in pooled:
        kwds = dict(c_[3]).get('kwds')
        inner = [v for k, v in kwds[1] if k is None] if kwds is not None and kwds[0] == 'dict' else []
        rep.check(bool(dicts) and inner == [dicts[0]], R, w2, 'parsing.run:pooled:kwargs', 'workers get the same option dictionary',
                  'the pooled path passes %s as options' % (show(kwds)[:80] if kwds else None))
    if not dicts:
        raise AnalysisError('depccg/parsing.py: no option dictionary reaches depccg._parsing.run')
    d = {k[1]: v for k, v in dicts[0][1] if k is not None and k[0] == 'const'}
    for f in want[1:] + ['max_length']:
        v = d.get(f)
        ok = v is not None and v == N(f) and f in pparams
        rep.check(ok, R, w2, 'parsing.run:kwargs:' + f, 'option %r is bound to the like-named parameter of depccg.parsing.run' % f,
                  'option %r is bound to %s' % (f, show(v) if v is not None else 'nothing'))
    v = d.get('num_tags')
    ok_nt = v is not None and v[0] == 'sub' and v[2] == C(1) and v[1][0] == 'attr' and v[1][2] == 'shape'
    if not ok_nt and v is not None and v[0] == 'call' and v[1] == N('len') and len(v[2]) == 1 and v[2][0][0] == 'name' and v[2][0][1] in pparams:
        # ... or the length of the category list, which the validation step has just compared with that width
        ok_nt = any(isinstance(c_, ast.Call) and isinstance(c_.func, ast.Name) and c_.func.id == '_type_check'
                    and any(isinstance(a_, ast.Name) and a_.id == v[2][0][1] for a_ in c_.args) for c_ in ast.walk(prun))
    rep.check(ok_nt, R, w2, 'parsing.run:kwargs:num_tags',
              'num_tags is the width of the tag-score matrix', 'num_tags is %s' % (show(v) if v is not None else 'missing'))
    # __main__: CLI flags -> parameters
    mm = repo.module('depccg/__main__.py')
    main = mm.get('main')
    kd = None
    for n in ast.walk(main):
        if isinstance(n, ast.Assign) and isinstance(n.value, ast.Call) and src(n.value.func) == 'dict' and any(
                isinstance(t, ast.Name) and t.id == 'kwargs' for t in n.targets):
            kd = {kw.arg: kw.value for kw in n.value.keywords}
    if kd is None:
        # ... or built by a helper that is given the parsed arguments:  kwargs = options_of(args)
        for n in ast.walk(main):
            if isinstance(n, ast.Assign) and isinstance(n.value, ast.Call) and isinstance(n.value.func, ast.Name) and len(n.value.args) == 1 \
                    and isinstance(n.value.args[0], ast.Name) and any(isinstance(t, ast.Name) and t.id == 'kwargs' for t in n.targets):
                h = mm.get(n.value.func.id, required=False)
                if isinstance(h, ast.FunctionDef) and len(h.args.args) == 1:
                    rets = [r for r in ast.walk(h) if isinstance(r, ast.Return) and r.value is not None]
                    if len(rets) == 1 and isinstance(rets[0].value, ast.Call) and src(rets[0].value.func) == 'dict' and not rets[0].value.args:
                        hp, an = h.args.args[0].arg, n.value.args[0].id

                        class _Ren(ast.NodeTransformer):
                            def visit_Name(self_, x):
                                return ast.copy_location(ast.Name(id=an, ctx=x.ctx), x) if x.id == hp else x
                        import copy as _copy
                        kd = {kw.arg: _Ren().visit(_copy.deepcopy(kw.value)) for kw in rets[0].value.keywords}
    if kd is None:
        # ... or every parsed option that is also a parameter of the callee, under its own name:
        #     names = inspect.signature(depccg.parsing.run).parameters
        #     kwargs = {k: v for k, v in vars(args).items() if k in names}
        # The keys are then the attribute names the command line declares (dest= or the long flag) that are parameters of
        # run -- nothing else: an option whose attribute is spelt differently from the parameter it stands for is not passed.
        for n in ast.walk(main):
            if not (isinstance(n, ast.Assign) and isinstance(n.value, ast.DictComp) and any(isinstance(t, ast.Name) and t.id == 'kwargs' for t in n.targets)):
                continue
            dc = n.value
            g = dc.generators[0] if len(dc.generators) == 1 else None
            if g is None or not (isinstance(g.target, ast.Tuple) and len(g.target.elts) == 2 and all(isinstance(e_, ast.Name) for e_ in g.target.elts)):
                continue
            kn, vn = g.target.elts[0].id, g.target.elts[1].id
            it = g.iter
            if not (isinstance(it, ast.Call) and isinstance(it.func, ast.Attribute) and it.func.attr == 'items' and isinstance(it.func.value, ast.Call)
                    and src(it.func.value.func) == 'vars' and len(it.func.value.args) == 1 and isinstance(it.func.value.args[0], ast.Name)):
                continue
            an = it.func.value.args[0].id
            if not (isinstance(dc.key, ast.Name) and dc.key.id == kn and isinstance(dc.value, ast.Name) and dc.value.id == vn):
                continue
            if not (len(g.ifs) == 1 and isinstance(g.ifs[0], ast.Compare) and len(g.ifs[0].ops) == 1 and isinstance(g.ifs[0].ops[0], ast.In)
                    and isinstance(g.ifs[0].left, ast.Name) and g.ifs[0].left.id == kn):
                continue
            dom = g.ifs[0].comparators[0]
            names = None
            if isinstance(dom, (ast.Tuple, ast.List, ast.Set)) and all(isinstance(e_, ast.Constant) and isinstance(e_.value, str) for e_ in dom.elts):
                names = {e_.value for e_ in dom.elts}
            elif isinstance(dom, ast.Name):
                binds = [a_ for a_ in ast.walk(main) if isinstance(a_, ast.Assign) and any(isinstance(t, ast.Name) and t.id == dom.id for t in a_.targets)]
                if len(binds) == 1:
                    dom = binds[0].value
            if names is None and src(dom).replace(' ', '') in ('inspect.signature(depccg.parsing.run).parameters', 'inspect.signature(run).parameters',
                                                                'signature(depccg.parsing.run).parameters', 'signature(run).parameters'):
                names = set(pparams)
            if names is None:
                continue
            from .cli import cli_options
            dests = set()
            for o_ in cli_options(repo)[2]:
                d_ = o_.const('dest') if 'dest' in o_.kw else None
                if 'dest' in o_.kw and d_ is None:
                    raise AnalysisError('depccg/argparse.py: an option with a computed dest')
                if d_ is None:
                    long_ = [f for f in o_.flags if f.startswith('--')]
                    d_ = (long_[0] if long_ else o_.flags[0]).lstrip('-').replace('-', '_')
                dests.add(d_)
            kd = {k_: ast.copy_location(ast.Attribute(value=ast.Name(id=an, ctx=ast.Load()), attr=k_, ctx=ast.Load()), n) for k_ in sorted(names & dests)}
    if kd is None:
        raise AnalysisError('depccg/__main__.py: kwargs = dict(...) not found')
    # keys added one by one afterwards:  kwargs['processes'] = args.num_processes
    for n in ast.walk(main):
        if isinstance(n, ast.Assign) and len(n.targets) == 1 and isinstance(n.targets[0], ast.Subscript) and isinstance(n.targets[0].value, ast.Name) \
                and n.targets[0].value.id == 'kwargs' and isinstance(n.targets[0].slice, ast.Constant) and isinstance(n.targets[0].slice.value, str):
            kd[n.targets[0].slice.value] = n.value
    w3 = 'depccg/__main__.py:%s main' % main.lineno
    expect = {'unary_penalty': 'args.unary_penalty', 'nbest': 'args.nbest', 'pruning_size': 'args.pruning_size',
              'beta': 'args.beta', 'use_beta': 'not args.disable_beta', 'max_length': 'args.max_length',
              'max_step': 'args.max_step'}
    for k, e in expect.items():
        got = src(kd[k]) if k in kd else None
        if k == 'use_beta' and k in kd:
            # the switch judged by what it does: however --disable-beta is declared (store_true under its own name,
            # store_false with dest=..) and however main reads it, the filter is on without the flag and off with it
            from .cli import switch_semantics, eval_switch_expr
            sem = switch_semantics(repo, '--disable-beta')
            oks = bool(sem) and all(s_ is not None and eval_switch_expr(kd[k], {s_[1]: s_[2]}) is True and eval_switch_expr(kd[k], {s_[1]: s_[3]}) is False for s_ in sem)
            rep.check(oks, R, w3, 'main:kwargs:' + k, 'use_beta is true without --disable-beta and false with it (%s, declared as %s)' % (got, sem),
                      'parameter %r is set from %s, with --disable-beta declared as %s: the switch does not turn the filter off (or on by default)' % (k, got, sem))
            continue
        rep.check(got == e, R, w3, 'main:kwargs:' + k, 'CLI option reaches parameter %r as %s' % (k, e),
                  ('parameter %r is set from %s' % (k, got)) if got is not None else
                  'parameter %r is not passed by the command line at all: depccg.parsing.run falls back to its own default, whatever the option says' % k)
    extra = set(kd) - pparams
    rep.check(not extra, R, w3, 'main:kwargs:known', 'every keyword passed by the CLI is a parameter of depccg.parsing.run',
              'CLI passes unknown keywords %s' % sorted(extra))
