"""The command line as a table: every `add_argument` the argument parser of depccg/argparse.py performs, read off the
paths of `parse_args` with its helpers inlined and its literal tables unrolled -- so it does not matter whether an
option is declared by a call of its own, through a helper called once per language, or from a table of (flags,
keywords) rows."""
import ast
from .core import AnalysisError
from .pysym import SymExec, subterms, show

REL = 'depccg/argparse.py'


class Option(object):
    def __init__(self, flags, kw, lang, node, receiver):
        self.flags = flags          # ['-f', '--format']
        self.kw = kw                # {'default': term, 'choices': term, ...}
        self.lang = lang            # 'en' / 'ja' / None
        self.node = node
        self.receiver = receiver

    def const(self, key):
        t = self.kw.get(key)
        return t[1] if t is not None and t[0] == 'const' else None

    def strings(self, key, mod=None):
        t = self.kw.get(key)
        if t is not None and t[0] in ('list', 'tuple', 'set') and all(x[0] == 'const' for x in t[1]):
            return [x[1] for x in t[1]]
        if t is not None and t[0] == 'name' and mod is not None:
            # a module-level table handed on by name
            from .rules_grammar import const_strings
            import ast
            return const_strings(mod, ast.Name(id=t[1], ctx=ast.Load()))
        return None


def _lang_of(receiver):
    """the sub-command the option belongs to: the parser is the value of <subparsers>.add_parser('<name>')"""
    x = receiver
    if x[0] == 'call' and x[1][0] == 'attr' and x[1][2] == 'add_parser' and x[2] and x[2][0][0] == 'const':
        return x[2][0][1]
    return None


def cli_options(repo):
    mod = repo.module(REL)
    fn = mod.get('parse_args')
    best = []
    # the options may be declared by parse_args itself or by helpers of the module it calls (one per sub-command, a builder
    # that returns the parser, ..): all of them are read in place
    helpers = tuple(f_.name for f_ in mod.tree.body if isinstance(f_, ast.FunctionDef) and f_.name != fn.name)
    # args = build_parser(f).parse_args(argv): the helper call in receiver position gets a name of its own, so that the
    # walker reads the helper's statements where it is called
    for blk in [n_.body for n_ in ast.walk(fn) if hasattr(n_, 'body') and isinstance(getattr(n_, 'body'), list)]:
        for i_, st_ in enumerate(list(blk)):
            v_ = st_.value if isinstance(st_, (ast.Assign, ast.Expr, ast.Return)) else None
            if isinstance(v_, ast.Call) and isinstance(v_.func, ast.Attribute) and isinstance(v_.func.value, ast.Call) \
                    and isinstance(v_.func.value.func, ast.Name) and v_.func.value.func.id in helpers and not getattr(st_, '_hoisted', False):
                tmp = '_%s__value' % v_.func.value.func.id
                pre = ast.copy_location(ast.Assign(targets=[ast.Name(id=tmp, ctx=ast.Store())], value=v_.func.value), st_)
                v_.func.value = ast.copy_location(ast.Name(id=tmp, ctx=ast.Load()), v_.func.value)
                ast.fix_missing_locations(pre)
                pre._parent = getattr(st_, '_parent', None)
                for n_ in ast.walk(pre):
                    for c_ in ast.iter_child_nodes(n_):
                        c_._parent = n_
                st_._hoisted = True
                blk.insert(blk.index(st_), pre)
    for st, o in SymExec(fn, unroll=1, inline_also=helpers).run():
        opts = []
        for e in st.events:
            if e[0] != 'call':
                continue
            t = e[1]
            if not (t[1][0] == 'attr' and t[1][2] == 'add_argument'):
                continue
            flags = []
            ok = True
            for a in t[2]:
                if a[0] == 'star' and a[1][0] in ('tuple', 'list'):
                    items = a[1][1]
                else:
                    items = (a,)
                for x in items:
                    if x[0] == 'const' and isinstance(x[1], str):
                        flags.append(x[1])
                    else:
                        ok = False
            kw = {}
            for k, v in t[3]:
                if k is None:
                    if v[0] == 'dict' and all(kk is not None and kk[0] == 'const' for kk, _ in v[1]):
                        for kk, vv in v[1]:
                            kw[kk[1]] = vv
                    else:
                        ok = False
                else:
                    kw[k] = v
            if not ok:
                raise AnalysisError('%s:%s an option is declared with arguments that cannot be read off the source: %s'
                                    % (REL, getattr(e[-1], 'lineno', '?'), show(t)[:100]))
            opts.append(Option(flags, kw, _lang_of(t[1][1]), e[-1], t[1][1]))
        if len(opts) > len(best):
            best = opts
    if not best:
        raise AnalysisError('%s: parse_args declares no option' % REL)
    return mod, fn, best


def switch_semantics(repo, flag):
    """a boolean switch of the command line as what it does: -> [(lang, attribute name, value when absent, value when
    given)] for every declaration of `flag` (store_true / store_false, with or without dest= / default=); None for a
    declaration that is not such a switch"""
    mod, fn, options = cli_options(repo)
    out = []
    for o in options:
        if flag not in o.flags:
            continue
        act = o.const('action')
        if act not in ('store_true', 'store_false'):
            out.append(None)
            continue
        dest = o.const('dest') if 'dest' in o.kw else None
        if 'dest' in o.kw and dest is None:
            out.append(None)
            continue
        if dest is None:
            long_ = [f for f in o.flags if f.startswith('--')]
            dest = (long_[0] if long_ else o.flags[0]).lstrip('-').replace('-', '_')
        given = act == 'store_true'
        absent = not given
        if 'default' in o.kw:
            d = o.kw['default']
            if d[0] == 'const' and isinstance(d[1], bool):
                absent = d[1]
            else:
                out.append(None)
                continue
        out.append((o.lang, dest, absent, given))
    return out


def eval_switch_expr(node, attr_values, args_name='args'):
    """value of `args.X` / `not args.X` / `bool(args.X)` under the given attribute values; None when it is anything else"""
    import ast
    if isinstance(node, ast.UnaryOp) and isinstance(node.op, ast.Not):
        v = eval_switch_expr(node.operand, attr_values, args_name)
        return None if v is None else not v
    if isinstance(node, ast.Call) and isinstance(node.func, ast.Name) and node.func.id == 'bool' and len(node.args) == 1 and not node.keywords:
        return eval_switch_expr(node.args[0], attr_values, args_name)
    if isinstance(node, ast.Attribute) and isinstance(node.value, ast.Name) and node.value.id == args_name and node.attr in attr_values:
        return attr_values[node.attr]
    return None
