"""Small repository-specific lints shared by several properties."""
import ast

from .core import src, qualname_of

LANG_CALLS = ('get_global_language',)


def r_import_time_language(repo, rep, R, files):
    """The active language is set by the command line *after* the modules are imported.  A default argument is evaluated
    once, at import time: `def f(trees, lang=get_global_language())` freezes the language to the initial 'en' for every
    later call.  No default argument (and no module-level statement) of the given files may evaluate the language."""
    n = 0
    for rel in files:
        mod = repo.module(rel)
        for fn in [f for f in ast.walk(mod.tree) if isinstance(f, (ast.FunctionDef, ast.Lambda))]:
            a = fn.args
            defaults = [d for d in list(a.defaults) + list(a.kw_defaults) if d is not None]
            n += 1
            name = qualname_of(fn) if isinstance(fn, ast.FunctionDef) else '<lambda>'
            for d in defaults:
                calls = [c for c in ast.walk(d) if isinstance(c, ast.Call) and src(c.func).split('.')[-1] in LANG_CALLS]
                rep.check(not calls, R, '%s:%s %s' % (rel, d.lineno, name), '%s:%s:import-time-language' % (rel, name),
                          'defaults of %s do not evaluate the language' % name,
                          'the default `%s` of %s is evaluated once at import time, before the command line sets the language: it stays %r for Japanese input'
                          % (src(d)[:60], name, 'en'))
        for s_ in mod.tree.body:
            if isinstance(s_, (ast.Assign, ast.AnnAssign)) and s_.value is not None:
                calls = [c for c in ast.walk(s_.value) if isinstance(c, ast.Call) and src(c.func).split('.')[-1] in LANG_CALLS
                         and not any(isinstance(p_, (ast.Lambda, ast.FunctionDef)) for p_ in _parents_in(c, s_))]
                rep.check(not calls, R, '%s:%s <module>' % (rel, s_.lineno), '%s:module:%s:import-time-language' % (rel, src(s_)[:30]),
                          'module-level binding does not evaluate the language', 'module-level `%s` evaluates the language at import time' % src(s_)[:70])
    return n


def _parents_in(node, stop):
    p = getattr(node, '_parent', None)
    while p is not None and p is not stop:
        yield p
        p = getattr(p, '_parent', None)


def r_no_reordering(repo, rep, R, targets, what):
    """The given functions (with the same-module helpers they call) hand on what they read in the order they read it: no
    sort / reverse / set iteration between reading and yielding.  targets: [(rel, qualname)]."""
    from .core import closure_walk
    n = 0
    for rel, q in targets:
        mod = repo.module(rel)
        fn = mod.get(q)
        hits = []
        for c in closure_walk(fn):
            if isinstance(c, ast.Call):
                f = c.func
                if isinstance(f, ast.Name) and f.id in ('sorted', 'reversed', 'set', 'frozenset', 'shuffle'):
                    hits.append((c.lineno, src(c)[:60]))
                if isinstance(f, ast.Attribute) and f.attr in ('sort', 'reverse', 'shuffle'):
                    hits.append((c.lineno, src(c)[:60]))
            n += 1
        rep.check(not hits, R, '%s:%s %s' % (rel, hits[0][0] if hits else fn.lineno, q), '%s:%s:reorders' % (rel, q),
                  '%s keeps %s in the order read' % (q, what),
                  '%s reorders %s: `%s` (string keys sort 10 before 2; the n-th result no longer belongs to the n-th sentence / rank)' % (q, what, hits[0][1] if hits else ''))
    return n
