"""Small repository-specific lints shared by several properties."""
import ast

from .core import src, qualname_of, enclosing_function, AnalysisError

LANG_CALLS = ('get_global_language',)


def r_import_time_language(repo, rep, R, files):
    """The active language is set by the command line *after* the modules are imported.  A default argument is evaluated
    once, at import time: `def f(trees, lang=get_global_language())` freezes the language to the initial 'en' for every
    later call.  No default argument (and no module-level statement) of the given files may evaluate the language."""
    n = 0
    for rel in files:
        mod = repo.module(rel)
        for fn in [f for f in ast.walk(mod.tree) if isinstance(f, (ast.FunctionDef, ast.Lambda))]:
            a = fn.args
            defaults = [d for d in list(a.defaults) + list(a.kw_defaults) if d is not None]
            n += 1
            name = qualname_of(fn) if isinstance(fn, ast.FunctionDef) else '<lambda>'
            for d in defaults:
                calls = [c for c in ast.walk(d) if isinstance(c, ast.Call) and src(c.func).split('.')[-1] in LANG_CALLS]
                rep.check(not calls, R, '%s:%s %s' % (rel, d.lineno, name), '%s:%s:import-time-language' % (rel, name),
                          'defaults of %s do not evaluate the language' % name,
                          'the default `%s` of %s is evaluated once at import time, before the command line sets the language: it stays %r for Japanese input'
                          % (src(d)[:60], name, 'en'))
        for s_ in mod.tree.body:
            if isinstance(s_, (ast.Assign, ast.AnnAssign)) and s_.value is not None:
                calls = [c for c in ast.walk(s_.value) if isinstance(c, ast.Call) and src(c.func).split('.')[-1] in LANG_CALLS
                         and not any(isinstance(p_, (ast.Lambda, ast.FunctionDef)) for p_ in _parents_in(c, s_))]
                rep.check(not calls, R, '%s:%s <module>' % (rel, s_.lineno), '%s:module:%s:import-time-language' % (rel, src(s_)[:30]),
                          'module-level binding does not evaluate the language', 'module-level `%s` evaluates the language at import time' % src(s_)[:70])
    return n


def _parents_in(node, stop):
    p = getattr(node, '_parent', None)
    while p is not None and p is not stop:
        yield p
        p = getattr(p, '_parent', None)


def r_no_reordering(repo, rep, R, targets, what):
    """The given functions (with the same-module helpers they call) hand on what they read in the order they read it: no
    sort / reverse / set iteration between reading and yielding.  targets: [(rel, qualname)]."""
    from .core import closure_walk
    n = 0
    for rel, q in targets:
        mod = repo.module(rel)
        fn = mod.get(q)
        hits = []
        for c in closure_walk(fn):
            if isinstance(c, ast.Call):
                f = c.func
                if isinstance(f, ast.Name) and f.id in ('sorted', 'reversed', 'set', 'frozenset', 'shuffle'):
                    hits.append((c.lineno, src(c)[:60]))
                if isinstance(f, ast.Attribute) and f.attr in ('sort', 'reverse', 'shuffle'):
                    hits.append((c.lineno, src(c)[:60]))
            n += 1
        rep.check(not hits, R, '%s:%s %s' % (rel, hits[0][0] if hits else fn.lineno, q), '%s:%s:reorders' % (rel, q),
                  '%s keeps %s in the order read' % (q, what),
                  '%s reorders %s: `%s` (string keys sort 10 before 2; the n-th result no longer belongs to the n-th sentence / rank)' % (q, what, hits[0][1] if hits else ''))
    return n


def _entries_are_objects(v):
    """may the entries of the module-level object created by expression v be changed in place?  (not when it is a
    display of constants / names / tuples of those)"""
    plain = lambda e: isinstance(e, (ast.Constant, ast.Name, ast.Attribute)) or (isinstance(e, ast.Tuple) and all(plain(x) for x in e.elts)) \
        or (isinstance(e, ast.Call) and src(e.func) in ('frozenset', 'tuple', 're.compile', 'str', 'int', 'float'))
    if isinstance(v, ast.Dict):
        return not all(plain(x) for x in v.values if x is not None) or not v.values
    if isinstance(v, (ast.List, ast.Set, ast.Tuple)):
        return not all(plain(x) for x in v.elts) or not v.elts
    return True


def r_module_state(repo, rep, R, rels, consequence, only=None):
    """module-level objects (buffers, caches, counters) are shared by every call: none of them may be written to by a
    function, through local aliases either.  -> number of module-level objects seen.  `only`: restrict to these
    function names."""
    from .rules_pyx import MUTATORS as rp_MUTATORS
    # module-level objects of the printers are shared by every rendering: none of them may be written to by a function
    # (a reused buffer, a cache, a counter make the n-th rendering depend on the ones before it)
    PURE_MAKERS = {'re.compile', 'frozenset', 'tuple', 'namedtuple', 'TypeVar', 'logging.getLogger', 'getLogger', 'str', 'int', 'float'}
    WRITES = set(rp_MUTATORS) | {'write', 'writelines', 'seek', 'truncate', 'read', 'readline', 'add', 'discard', 'sort', 'reverse', 'close', 'flush'}
    n_shared = 0
    for rel in rels:
        mod = repo.module(rel)
        shared = {}
        for st_ in mod.tree.body:
            if isinstance(st_, (ast.Assign, ast.AnnAssign)) and st_.value is not None:
                v = st_.value
                is_obj = (isinstance(v, ast.Call) and src(v.func) not in PURE_MAKERS) or isinstance(v, (ast.List, ast.Dict, ast.Set, ast.ListComp, ast.DictComp, ast.SetComp))
                if is_obj:
                    for t in (st_.targets if isinstance(st_, ast.Assign) else [st_.target]):
                        if isinstance(t, ast.Name):
                            shared[t.id] = st_
        n_shared += len(shared)
        for fn in [f for f in ast.walk(mod.tree) if isinstance(f, ast.FunctionDef) and (only is None or f.name in only)]:
            local = {a.arg for a in fn.args.args + fn.args.kwonlyargs} | {t.id for n_ in ast.walk(fn) if isinstance(n_, ast.Name) and isinstance(n_.ctx, ast.Store) for t in [n_]}
            # local names that are just another name for a shared object
            alias = {}
            entry_alias = set()
            for _ in range(2):
                for n_ in ast.walk(fn):
                    if isinstance(n_, ast.Assign) and isinstance(n_.value, ast.Name) and \
                            ((n_.value.id in shared and n_.value.id not in local) or n_.value.id in alias):
                        for t in n_.targets:
                            if isinstance(t, ast.Name):
                                alias[t.id] = alias.get(n_.value.id, n_.value.id)
                    if isinstance(n_, ast.With):
                        for it in n_.items:
                            if isinstance(it.context_expr, ast.Name) and it.context_expr.id in shared and isinstance(it.optional_vars, ast.Name):
                                alias[it.optional_vars.id] = it.context_expr.id
                    # ... or for one of its entries, when the entries are objects themselves: t = TABLE[k] / TABLE.get(k, {}) / TABLE.setdefault(k, [])
                    if isinstance(n_, ast.Assign) and len(n_.targets) == 1 and isinstance(n_.targets[0], ast.Name):
                        v_ = n_.value
                        base_ = None
                        if isinstance(v_, ast.Subscript) and isinstance(v_.value, ast.Name):
                            base_ = v_.value.id
                        elif isinstance(v_, ast.Call) and isinstance(v_.func, ast.Attribute) and isinstance(v_.func.value, ast.Name) and v_.func.attr in ('get', 'setdefault'):
                            base_ = v_.func.value.id
                        once_ = sum(1 for x_ in ast.walk(fn) if isinstance(x_, ast.Name) and isinstance(x_.ctx, ast.Store) and x_.id == n_.targets[0].id) == 1
                        if base_ is not None and once_ and base_ in shared and base_ not in local and _entries_are_objects(shared[base_].value):
                            alias[n_.targets[0].id] = base_
                            entry_alias.add(n_.targets[0].id)
            # a parameter whose default is a shared object (or an object created once, when the `def` runs): every call that
            # leaves the parameter out works on that one object
            all_params = fn.args.posonlyargs + fn.args.args
            dflts = list(zip(reversed(all_params), reversed(fn.args.defaults))) + [(a_, d_) for a_, d_ in zip(fn.args.kwonlyargs, fn.args.kw_defaults) if d_ is not None]
            own_default = {}
            for a_, d_ in dflts:
                once_ = sum(1 for x_ in ast.walk(fn) if isinstance(x_, ast.Name) and isinstance(x_.ctx, ast.Store) and x_.id == a_.arg) == 0 or \
                    all(isinstance(x_._parent, ast.AugAssign) for x_ in ast.walk(fn) if isinstance(x_, ast.Name) and isinstance(x_.ctx, ast.Store) and x_.id == a_.arg and hasattr(x_, '_parent'))
                if not once_:
                    continue
                if isinstance(d_, ast.Name) and d_.id in shared:
                    alias[a_.arg] = d_.id
                elif isinstance(d_, (ast.List, ast.Dict, ast.Set)) or (isinstance(d_, ast.Call) and src(d_.func) in ('list', 'dict', 'set', 'collections.OrderedDict', 'OrderedDict', 'defaultdict')):
                    own_default[a_.arg] = d_
            shared_here = dict(shared)
            for a_, b_ in alias.items():
                shared_here[a_] = shared[b_]
            for a_, d_ in own_default.items():
                shared_here[a_] = d_
            local = local - set(alias)
            for n_ in ast.walk(fn):
                hit = None
                if isinstance(n_, ast.Call) and isinstance(n_.func, ast.Attribute) and isinstance(n_.func.value, ast.Name) \
                        and n_.func.value.id in shared_here and n_.func.value.id not in local and n_.func.attr in WRITES:
                    hit = (n_.func.value.id, '.%s()' % n_.func.attr)
                if isinstance(n_, ast.Call):
                    for kw in n_.keywords:
                        if kw.arg == 'file' and isinstance(kw.value, ast.Name) and kw.value.id in shared_here and kw.value.id not in local:
                            hit = (kw.value.id, 'written to through file=')
                    if isinstance(n_.func, ast.Name) and n_.func.id == 'next' and n_.args and isinstance(n_.args[0], ast.Name) and n_.args[0].id in shared_here and n_.args[0].id not in local:
                        hit = (n_.args[0].id, 'drawn from with next()')
                if isinstance(n_, (ast.Subscript, ast.Attribute)) and isinstance(n_.ctx, (ast.Store, ast.Del)) and isinstance(n_.value, ast.Name) \
                        and n_.value.id in shared_here and n_.value.id not in local:
                    hit = (n_.value.id, 'item / attribute assigned')
                if isinstance(n_, ast.AugAssign) and isinstance(n_.target, ast.Name) and n_.target.id in shared_here and (n_.target.id not in local or n_.target.id in own_default) \
                        and isinstance(n_.op, (ast.BitOr, ast.Add, ast.BitAnd, ast.Sub, ast.BitXor, ast.Mult)) and (n_.target.id in alias or n_.target.id in own_default):
                    hit = (n_.target.id, 'updated in place with %s=' % {'BitOr': '|', 'Add': '+', 'BitAnd': '&', 'Sub': '-', 'BitXor': '^', 'Mult': '*'}[type(n_.op).__name__])
                if hit and hit[0] in own_default:
                    rep.violation(R, '%s:%s %s' % (rel, n_.lineno, qualname_of(fn)), '%s:%s:default-state:%s' % (rel, qualname_of(fn), hit[0]),
                                  '%s changes its parameter `%s` (%s), whose default value is one object created when the function was defined: what a call leaves in it is what '
                                  'the next call starts from -- %s' % (qualname_of(fn), hit[0], hit[1], consequence))
                    continue
                if hit:
                    through = ' through its entry `%s`' % hit[0] if hit[0] in entry_alias else ''
                    hit = (alias.get(hit[0], hit[0]), hit[1])
                    rep.violation(R, '%s:%s %s' % (rel, n_.lineno, qualname_of(fn)), '%s:%s:module-state:%s' % (rel, qualname_of(fn), hit[0]),
                                  '%s writes to the module-level object `%s`%s (%s): %s'
                                  % (qualname_of(fn), hit[0], through, hit[1], consequence))
        # objects created in a class body (plain class attributes, dataclass field defaults that are not factories) are one
        # object for all instances: a method that consumes or changes it through `self` changes it for every later instance
        for cls in [c for c in ast.walk(mod.tree) if isinstance(c, ast.ClassDef)]:
            cattr = {}
            for st_ in cls.body:
                if isinstance(st_, (ast.Assign, ast.AnnAssign)) and st_.value is not None:
                    v = st_.value
                    if isinstance(v, ast.Call) and src(v.func) in ('field', 'dataclasses.field'):
                        dflt = [k.value for k in v.keywords if k.arg == 'default']
                        v = dflt[0] if dflt else None
                    if v is None:
                        continue
                    is_obj = (isinstance(v, ast.Call) and src(v.func) not in PURE_MAKERS) or isinstance(v, (ast.List, ast.Dict, ast.Set, ast.ListComp, ast.DictComp, ast.SetComp))
                    if is_obj:
                        for t in (st_.targets if isinstance(st_, ast.Assign) else [st_.target]):
                            if isinstance(t, ast.Name):
                                cattr[t.id] = st_
            if not cattr:
                continue
            n_shared += len(cattr)
            meths = [f for f in cls.body if isinstance(f, ast.FunctionDef) and f.args.args]
            rebound = {t.attr for f in meths for n_ in ast.walk(f) if isinstance(n_, ast.Assign) for t in n_.targets
                       if isinstance(t, ast.Attribute) and isinstance(t.value, ast.Name) and t.value.id == f.args.args[0].arg}
            for f in meths:
                me = f.args.args[0].arg
                is_attr = lambda e: isinstance(e, ast.Attribute) and isinstance(e.value, ast.Name) and e.value.id == me and e.attr in cattr and e.attr not in rebound
                for n_ in ast.walk(f):
                    hit = None
                    if isinstance(n_, ast.Call) and isinstance(n_.func, ast.Attribute) and is_attr(n_.func.value) and n_.func.attr in WRITES:
                        hit = (n_.func.value.attr, '.%s()' % n_.func.attr)
                    if isinstance(n_, ast.Call) and isinstance(n_.func, ast.Name) and n_.func.id == 'next' and n_.args and is_attr(n_.args[0]):
                        hit = (n_.args[0].attr, 'drawn from with next()')
                    if isinstance(n_, ast.Subscript) and isinstance(n_.ctx, (ast.Store, ast.Del)) and is_attr(n_.value):
                        hit = (n_.value.attr, 'item assigned')
                    if hit:
                        rep.violation(R, '%s:%s %s' % (rel, n_.lineno, qualname_of(f)), '%s:%s:class-state:%s' % (rel, qualname_of(f), hit[0]),
                                      '%s changes `%s` (%s), an object created once in the body of class %s and shared by all its instances: %s'
                                      % (qualname_of(f), hit[0], hit[1], cls.name, consequence))
    return n_shared


def oneshot_hits(tree):
    """-> (n bindings inspected, [(fn, name, assign node, loop node, first use node)])"""
    MAKERS = {'enumerate', 'iter', 'zip', 'map', 'filter', 'reversed', 'itertools.chain', 'chain', 'itertools.islice', 'islice'}
    n = 0
    hits = []
    for fn in [f for f in ast.walk(tree) if isinstance(f, ast.FunctionDef)]:
        for a in ast.walk(fn):
            if not (isinstance(a, ast.Assign) and len(a.targets) == 1 and isinstance(a.targets[0], ast.Name)) or enclosing_function(a) is not fn:
                continue
            v = a.value
            if not (isinstance(v, ast.GeneratorExp) or (isinstance(v, ast.Call) and src(v.func) in MAKERS)):
                continue
            name = a.targets[0].id
            n += 1
            rebinds = [x for x in ast.walk(fn) if isinstance(x, ast.Assign) and x is not a and any(isinstance(t, ast.Name) and t.id == name for t in x.targets)]
            if rebinds:
                continue
            found_ = False
            for loop in [l for l in ast.walk(fn) if isinstance(l, (ast.For, ast.While)) and enclosing_function(l) is fn]:
                inside = any(x is a for x in ast.walk(loop))
                if inside or loop.lineno < a.lineno:
                    continue
                body_nodes = [y for s_ in loop.body for y in ast.walk(s_)]
                uses = [y for y in body_nodes if isinstance(y, ast.Name) and y.id == name and isinstance(y.ctx, ast.Load)]
                if uses:
                    hits.append((fn, name, a, loop, uses[0]))
                    found_ = True
                    break
            if found_:
                continue
            # ... or in the element / filter of a comprehension (evaluated once per item: `x in it` draws from `it` every time)
            for comp in [c for c in ast.walk(fn) if isinstance(c, (ast.ListComp, ast.SetComp, ast.DictComp, ast.GeneratorExp)) and c.lineno >= a.lineno and not any(x is a for x in ast.walk(c))]:
                parts = list(comp.generators[0].ifs) + [g_ for gen in comp.generators[1:] for g_ in [gen.iter] + list(gen.ifs)] + \
                    ([comp.key, comp.value] if isinstance(comp, ast.DictComp) else [comp.elt])
                uses = [y for p_ in parts for y in ast.walk(p_) if isinstance(y, ast.Name) and y.id == name and isinstance(y.ctx, ast.Load)]
                if uses:
                    hits.append((fn, name, a, comp, uses[0]))
                    break
    # an iterator bound at module level and read inside a function is drawn from by every call: the first call uses it up
    if isinstance(tree, ast.Module):
        for a in tree.body:
            if not (isinstance(a, ast.Assign) and len(a.targets) == 1 and isinstance(a.targets[0], ast.Name)):
                continue
            v = a.value
            if not (isinstance(v, ast.GeneratorExp) or (isinstance(v, ast.Call) and src(v.func) in MAKERS)):
                continue
            name = a.targets[0].id
            n += 1
            if any(isinstance(x, ast.Assign) and x is not a and any(isinstance(t, ast.Name) and t.id == name for t in x.targets) for x in tree.body):
                continue
            for fn in [f for f in ast.walk(tree) if isinstance(f, ast.FunctionDef)]:
                local = {t.id for x in ast.walk(fn) if isinstance(x, ast.Name) and isinstance(x.ctx, ast.Store) for t in [x]} | {a_.arg for a_ in fn.args.args + fn.args.kwonlyargs}
                if name in local:
                    continue
                uses = [y for y in ast.walk(fn) if isinstance(y, ast.Name) and y.id == name and isinstance(y.ctx, ast.Load)]
                if uses:
                    hits.append((fn, name, a, fn, uses[0]))
    return n, hits


ONESHOT_EXAMPLE = """
def render(sentences):
    out = []
    for trees in sentences:
        tokens = enumerate(trees[0].tokens)
        fresh = list(enumerate(trees[0].tokens))
        for tree in trees:
            out.append(walk(tree, tokens))
            out.append(walk(tree, fresh))
    return out
"""


def r_oneshot_iterators(repo, rep, R, rels, consequence):
    """an iterator can be walked once: one that is created before a loop and drawn from inside the loop's body (next(),
    a nested for, handed to a callee) is exhausted after the first round -- the second n-best tree / sentence gets
    nothing, or StopIteration.  -> number of iterator bindings inspected.  (The expected count on the reference tree is
    zero, so the rule first has to find the one instance of its embedded example.)"""
    from .core import attach_parents, AnalysisError
    ex = ast.parse(ONESHOT_EXAMPLE)
    attach_parents(ex)
    n_ex, hits_ex = oneshot_hits(ex)
    if [(h[1], h[4].lineno) for h in hits_ex] != [('tokens', 8)]:
        raise AnalysisError('embedded example of the one-shot iterator rule: expected the use of `tokens` on line 8, found %s' % [(h[1], h[4].lineno) for h in hits_ex])
    rep.ok(R, 'sa/lints.py ONESHOT_EXAMPLE', 'the rule flags an enumerate(..) created per sentence and consumed per tree, and not the list built from it')
    n = 0
    for rel in rels:
        mod = repo.module(rel)
        k, hits = oneshot_hits(mod.tree)
        n += k
        for fn, name, a, loop, use in hits:
            rep.violation(R, '%s:%s %s' % (rel, use.lineno, qualname_of(fn)), '%s:%s:one-shot:%s' % (rel, qualname_of(fn), name),
                          '`%s` is an iterator (%s) created once at line %d and drawn from in every %s at line %d: it is used up in the first %s -- %s'
                          % (name, src(a.value)[:50], a.lineno, 'call of the function' if loop is fn else 'round of the loop', loop.lineno, 'call' if loop is fn else 'round', consequence))
    return n


UNBOUND_EXAMPLE = '''
def to_text(trees, fmt):
    if fmt == 'a':
        lang = pick()
        out = render_a(trees, lang)
    elif fmt == 'b':
        out = render_b(trees, lang == 'ja')
    else:
        out = ''
    return out
'''


def possibly_unbound(fn):
    """-> [(Name node, name)] reads of a local of `fn` on a path along which no assignment to it has happened yet, judged
    over the branching of if / elif / else and try / except only (a loop body is taken to run: `for x in xs: last = x`
    followed by a use of `last` is not reported).  Nested functions and comprehensions are not entered."""
    a = fn.args
    params = {x.arg for x in a.posonlyargs + a.args + a.kwonlyargs} | ({a.vararg.arg} if a.vararg else set()) | ({a.kwarg.arg} if a.kwarg else set())
    declared = set()
    for n in ast.walk(fn):
        if isinstance(n, (ast.Global, ast.Nonlocal)):
            declared |= set(n.names)
    own = []

    def collect(node):
        for c in ast.iter_child_nodes(node):
            if isinstance(c, (ast.FunctionDef, ast.AsyncFunctionDef, ast.ClassDef, ast.Lambda)):
                if isinstance(c, (ast.FunctionDef, ast.AsyncFunctionDef, ast.ClassDef)):
                    own.append(('store', c.name))
                continue
            collect(c)
            if isinstance(c, ast.Name) and isinstance(c.ctx, (ast.Store, ast.Del)):
                own.append(('store', c.id))
            if isinstance(c, ast.ExceptHandler) and c.name:
                own.append(('store', c.name))
            if isinstance(c, (ast.Import, ast.ImportFrom)):
                for al in c.names:
                    own.append(('store', (al.asname or al.name).split('.')[0]))
    collect(fn)
    locals_ = {nm for _, nm in own} - declared - params
    out = []

    def reads(expr, bound):
        if expr is None:
            return
        if isinstance(expr, (ast.Lambda, ast.FunctionDef, ast.AsyncFunctionDef, ast.ClassDef)):
            return
        if isinstance(expr, (ast.ListComp, ast.SetComp, ast.GeneratorExp, ast.DictComp)):
            b2 = set(bound)
            for g in expr.generators:
                reads(g.iter, b2)
                for t in ast.walk(g.target):
                    if isinstance(t, ast.Name):
                        b2.add(t.id)
                for c in g.ifs:
                    reads(c, b2)
            for part in ([expr.key, expr.value] if isinstance(expr, ast.DictComp) else [expr.elt]):
                reads(part, b2)
            return
        if isinstance(expr, ast.NamedExpr):
            reads(expr.value, bound)
            bound.add(expr.target.id)
            return
        if isinstance(expr, ast.Name):
            if isinstance(expr.ctx, ast.Load) and expr.id in locals_ and expr.id not in bound:
                out.append((expr, expr.id))
            return
        for c in ast.iter_child_nodes(expr):
            reads(c, bound)

    def bind(target, bound):
        for t in ast.walk(target):
            if isinstance(t, ast.Name) and isinstance(t.ctx, (ast.Store, ast.Del)):
                bound.add(t.id)

    def block(stmts, bound):
        """-> set of names bound after the block, or None when the block always leaves (return / raise / continue / break)"""
        for s in stmts:
            if isinstance(s, (ast.FunctionDef, ast.AsyncFunctionDef, ast.ClassDef)):
                bound.add(s.name)
            elif isinstance(s, (ast.Import, ast.ImportFrom)):
                for al in s.names:
                    bound.add((al.asname or al.name).split('.')[0])
            elif isinstance(s, ast.Assign):
                reads(s.value, bound)
                for t in s.targets:
                    for sub in ast.walk(t):
                        if isinstance(sub, (ast.Subscript, ast.Attribute)):
                            reads(sub, bound)
                    bind(t, bound)
            elif isinstance(s, ast.AnnAssign):
                reads(s.value, bound)
                if s.value is not None:
                    bind(s.target, bound)
            elif isinstance(s, ast.AugAssign):
                reads(s.value, bound)
                reads(ast.Name(id=s.target.id, ctx=ast.Load()) if isinstance(s.target, ast.Name) else s.target, bound)
            elif isinstance(s, (ast.Return, ast.Raise)):
                reads(getattr(s, 'value', None) or getattr(s, 'exc', None), bound)
                return None
            elif isinstance(s, (ast.Continue, ast.Break)):
                return None
            elif isinstance(s, ast.If):
                reads(s.test, bound)
                a_ = block(s.body, set(bound))
                b_ = block(s.orelse, set(bound))
                if a_ is None and b_ is None:
                    return None
                bound = (a_ & b_) if a_ is not None and b_ is not None else (a_ if a_ is not None else b_)
            elif isinstance(s, (ast.For, ast.AsyncFor)):
                reads(s.iter, bound)
                bind(s.target, bound)
                a_ = block(s.body, set(bound))
                bound = a_ if a_ is not None else bound
                b_ = block(s.orelse, set(bound))
                bound = b_ if b_ is not None else bound
            elif isinstance(s, ast.While):
                reads(s.test, bound)
                a_ = block(s.body, set(bound))
                bound = a_ if a_ is not None else bound
            elif isinstance(s, (ast.With, ast.AsyncWith)):
                for it in s.items:
                    reads(it.context_expr, bound)
                    if it.optional_vars is not None:
                        bind(it.optional_vars, bound)
                a_ = block(s.body, bound)
                if a_ is None:
                    return None
                bound = a_
            elif isinstance(s, ast.Try):
                a_ = block(s.body, set(bound))
                outs = []
                if a_ is not None:
                    e_ = block(s.orelse, set(a_))
                    if e_ is not None:
                        outs.append(e_)
                for h in s.handlers:
                    hb = set(bound)
                    if h.name:
                        hb.add(h.name)
                    h_ = block(h.body, hb)
                    if h_ is not None:
                        outs.append(h_)
                if not outs:
                    if s.finalbody:
                        block(s.finalbody, set(bound))
                    return None
                nb = set.intersection(*outs)
                if s.finalbody:
                    f_ = block(s.finalbody, set(nb))
                    if f_ is None:
                        return None
                    nb = f_
                bound = nb
            elif isinstance(s, ast.Delete):
                pass
            else:
                for c in ast.iter_child_nodes(s):
                    reads(c, bound)
        return bound
    block(fn.body, set(params))
    return out


def r_possibly_unbound(repo, rep, R, files, consequence):
    ex = ast.parse(UNBOUND_EXAMPLE).body[0]
    got = [nm for _, nm in possibly_unbound(ex)]
    if got != ['lang']:
        raise AnalysisError('embedded positive example for the unbound-local rule: expected [lang], analysis reports %s' % got)
    n = 0
    for rel in files:
        mod = repo.module(rel)
        for fn in [f for f in ast.walk(mod.tree) if isinstance(f, (ast.FunctionDef, ast.AsyncFunctionDef))]:
            n += 1
            seen = set()
            for node, nm in possibly_unbound(fn):
                if nm in seen:
                    continue
                seen.add(nm)
                rep.violation(R, '%s:%s %s' % (rel, node.lineno, qualname_of(fn)), '%s:%s:unbound:%s' % (rel, qualname_of(fn), nm),
                              '`%s` is read on a branch where nothing has been assigned to it yet (it is only set on another branch): UnboundLocalError -- %s' % (nm, consequence))
    rep.ok(R, ', '.join(files[:2]) + ' ..', 'no function reads a local on a branch where it is not yet assigned (%d functions; the embedded example fires)' % n)
    return n


def _const_feasible(conds):
    """False when the path conditions contradict each other on comparisons of one term with constants
    (x in ('a', 'b') false and x == 'a' true; x == 'a' and x == 'b'; ..)"""
    must, cannot = {}, {}
    for c, pol, _ in conds:
        while c[0] == 'unop' and c[1] == 'not':
            c, pol = c[2], not pol
        if c[0] != 'cmp':
            continue
        op, l, r = c[1], c[2], c[3]
        if op in ('==', '!=') and r[0] == 'const':
            vals, key, eq = {r[1]}, l, (op == '==') == pol
        elif op in ('==', '!=') and l[0] == 'const':
            vals, key, eq = {l[1]}, r, (op == '==') == pol
        elif op in ('in', 'not in') and r[0] in ('tuple', 'list', 'set') and all(x[0] == 'const' for x in r[1]):
            vals, key, eq = {x[1] for x in r[1]}, l, (op == 'in') == pol
        else:
            continue
        try:
            hash(tuple(vals))
        except TypeError:
            continue
        if eq:
            must[key] = (must[key] & vals) if key in must else set(vals)
        else:
            cannot.setdefault(key, set()).update(vals)
    for key, vs in must.items():
        if not (vs - cannot.get(key, set())):
            return False
    return True


def r_unbound_reads(repo, rep, R, files, consequence):
    """candidates from possibly_unbound (branch structure), each confirmed on the paths of the function: reported only
    when a path whose conditions do not contradict each other reads the name before anything was assigned to it"""
    from .pysym import SymExec, subterms, terms_of
    ex = ast.parse(UNBOUND_EXAMPLE).body[0]
    got = [nm for _, nm in possibly_unbound(ex)]
    if got != ['lang']:
        raise AnalysisError('embedded positive example for the unbound-local rule: expected [lang], analysis reports %s' % got)
    n = 0
    for rel in files:
        mod = repo.module(rel)
        for fn in [f for f in ast.walk(mod.tree) if isinstance(f, (ast.FunctionDef, ast.AsyncFunctionDef))]:
            n += 1
            cands = {}
            for node, nm in possibly_unbound(fn):
                cands.setdefault(nm, node)
            if not cands:
                continue
            try:
                paths = SymExec(fn, unroll=1).run()
            except AnalysisError:
                continue
            confirmed = {}
            for st, o in paths:
                if not _const_feasible(st.conds):
                    continue
                for t in terms_of(st):
                    for x in subterms(t):
                        if x[0] == 'name' and x[1] in cands and x[1] not in confirmed:
                            confirmed[x[1]] = [c for c, pol, _ in st.conds][-1:] if st.conds else []
            for nm in sorted(confirmed):
                node = cands[nm]
                rep.violation(R, '%s:%s %s' % (rel, node.lineno, qualname_of(fn)), '%s:%s:unbound:%s' % (rel, qualname_of(fn), nm),
                              '`%s` is read on a branch where nothing has been assigned to it (it is only set on another branch): UnboundLocalError -- %s' % (nm, consequence))
    rep.ok(R, ', '.join(files[:2]) + ' ..', 'no function reads a local on a feasible path before it is assigned (%d functions; the embedded example fires)' % n)
    return n


# ---------------------------------------------------------------------------------------------------------------------
# text of a tree used as a format template
# ---------------------------------------------------------------------------------------------------------------------
TEMPLATE_EXAMPLE = '''
def _emit(header, body, idx, out):
    entry = '\\n'.join((header, body))
    print(entry.format(idx), file=out)


def to_text(trees, fmt, out):
    header = 'ID={}'
    for i, t in enumerate(trees, 1):
        _emit(header, fmt(t), i, out)
'''


def computed_templates(tree):
    """`.format(..)` / `%` applied to text that is not a template written in the source: [(call node, function, why)].
    A template is a string literal, a name bound only to templates (in the function, at module level, or a parameter of
    a module-level helper whose every call site hands over a template), a choice between templates, or templates joined
    by + / 'sep'.join.  Anything else -- the text of a tree, a word, a category -- may contain `{`, `}` or `%`: formatting
    it raises or rewrites what is printed."""
    fns = [f for f in ast.walk(tree) if isinstance(f, ast.FunctionDef)]
    top = {f.name: f for f in tree.body if isinstance(f, ast.FunctionDef)}
    modconst = {}
    for s in tree.body:
        if isinstance(s, (ast.Assign, ast.AnnAssign)) and s.value is not None:
            for t in (s.targets if isinstance(s, ast.Assign) else [s.target]):
                if isinstance(t, ast.Name):
                    modconst.setdefault(t.id, []).append(s.value)

    def fn_of(n):
        return enclosing_function(n)

    def is_template(e, fn, depth=0):
        if depth > 6:
            return False
        if isinstance(e, ast.Constant):
            return isinstance(e.value, str)
        if isinstance(e, ast.IfExp):
            return is_template(e.body, fn, depth + 1) and is_template(e.orelse, fn, depth + 1)
        if isinstance(e, ast.BinOp) and isinstance(e.op, ast.Add):
            return is_template(e.left, fn, depth + 1) and is_template(e.right, fn, depth + 1)
        if isinstance(e, ast.Call) and isinstance(e.func, ast.Attribute) and e.func.attr == 'join' and isinstance(e.func.value, ast.Constant) \
                and len(e.args) == 1 and isinstance(e.args[0], (ast.Tuple, ast.List)):
            return all(is_template(x, fn, depth + 1) for x in e.args[0].elts)
        if isinstance(e, ast.Subscript) and isinstance(e.value, ast.Name) and e.value.id in modconst:
            vals = modconst[e.value.id]
            return all(isinstance(v, ast.Dict) and all(is_template(x, None, depth + 1) for x in v.values) for v in vals)
        if isinstance(e, ast.Name):
            f = fn
            while f is not None:
                params = [a.arg for a in f.args.posonlyargs + f.args.args + f.args.kwonlyargs]
                binds = [a for a in ast.walk(f) if isinstance(a, (ast.Assign, ast.AnnAssign)) and a.value is not None and enclosing_function(a) is f
                         and any(isinstance(t, ast.Name) and t.id == e.id for t in (a.targets if isinstance(a, ast.Assign) else [a.target]))]
                other = [a for a in ast.walk(f) if enclosing_function(a) is f and (
                    (isinstance(a, (ast.For, ast.comprehension)) and any(isinstance(x, ast.Name) and x.id == e.id for x in ast.walk(a.target)))
                    or (isinstance(a, ast.AugAssign) and isinstance(a.target, ast.Name) and a.target.id == e.id)
                    or (isinstance(a, ast.Assign) and any(isinstance(t, (ast.Tuple, ast.List)) and any(isinstance(x, ast.Name) and x.id == e.id for x in ast.walk(t)) for t in a.targets)))]
                if other:
                    return False
                if binds:
                    return all(is_template(b.value, f, depth + 1) for b in binds)
                if e.id in params:
                    if f.name in top and top[f.name] is f:
                        sites = [c for c in ast.walk(tree) if isinstance(c, ast.Call) and isinstance(c.func, ast.Name) and c.func.id == f.name]
                        if not sites:
                            return True          # handed in by the caller: not text this module computes
                        i = [a.arg for a in f.args.posonlyargs + f.args.args].index(e.id) if e.id in [a.arg for a in f.args.posonlyargs + f.args.args] else None
                        for c in sites:
                            arg = None
                            for k in c.keywords:
                                if k.arg == e.id:
                                    arg = k.value
                            if arg is None and i is not None and i < len(c.args):
                                arg = c.args[i]
                            if arg is None:
                                dflt = dict(zip(reversed([a.arg for a in f.args.posonlyargs + f.args.args]), reversed(f.args.defaults)))
                                arg = dflt.get(e.id)
                            if arg is None or not is_template(arg, fn_of(c), depth + 1):
                                return False
                        return True
                    return True
                f = enclosing_function(f)
            if e.id in modconst:
                return all(is_template(v, None, depth + 1) for v in modconst[e.id])
            return True       # imported / unknown name: not computed here
        if isinstance(e, ast.Attribute):
            return True       # a constant of another module / of a class
        return False

    out = []
    for n in ast.walk(tree):
        fn = fn_of(n) if not isinstance(n, ast.Module) else None
        if isinstance(n, ast.Call) and isinstance(n.func, ast.Attribute) and n.func.attr == 'format' and (n.args or n.keywords):
            if not is_template(n.func.value, fn):
                out.append((n, fn, 'str.format is applied to %s' % src(n.func.value)[:60]))
        if isinstance(n, ast.BinOp) and isinstance(n.op, ast.Mod) and (isinstance(n.left, ast.JoinedStr) or (
                isinstance(n.left, ast.Call) and isinstance(n.left.func, ast.Attribute) and n.left.func.attr == 'join')):
            if not is_template(n.left, fn):
                out.append((n, fn, '%% is applied to %s' % src(n.left)[:60]))
    return out


def r_templates_constant(repo, rep, R, files, consequence):
    from .core import attach_parents
    ex = attach_parents(ast.parse(TEMPLATE_EXAMPLE))
    if len(computed_templates(ex)) != 1:
        raise AnalysisError('the computed-template rule does not match its positive example')
    n = 0
    for rel in files:
        mod = repo.module(rel)
        hits = computed_templates(mod.tree)
        sites = [c for c in ast.walk(mod.tree) if isinstance(c, ast.Call) and isinstance(c.func, ast.Attribute) and c.func.attr == 'format']
        n += len(sites)
        for node, fn, why in hits:
            rep.check(False, R, '%s:%s %s' % (rel, node.lineno, fn.name if fn is not None else '<module>'), '%s:%s:computed-template' % (rel, fn.name if fn is not None else '<module>'), '',
                      '%s, which is not a template written in the source: %s' % (why, consequence))
    rep.check(True, R, files[0], 'templates:constant', 'every str.format in %d printer modules is applied to a template written in the source (%d sites)' % (len(files), n), '')
    return n


# ---------------------------------------------------------------------------------------------------------------------
# the language selection is one setting of the process
# ---------------------------------------------------------------------------------------------------------------------
LANG_REL = 'depccg/lang.py'
SCOPED_STORES = ('local', 'threading.local', '_threading_local.local', 'ContextVar', 'contextvars.ContextVar', 'werkzeug.local.Local')


def r_language_setting(repo, rep, R, consequence):
    """what get_global_language() returns is what the last set_global_language_to() stored, whoever asks: the selection is
    kept in a module-level name (or a cell of a module-level object) -- not in a thread-local or context-local store,
    where a language chosen at start-up is invisible to the worker threads that read the files."""
    mod = repo.module(LANG_REL)
    setter, getter = mod.get('set_global_language_to'), mod.get('get_global_language')
    w = '%s:%s set_global_language_to' % (LANG_REL, setter.lineno)
    inits = {}
    for s in mod.tree.body:
        if isinstance(s, (ast.Assign, ast.AnnAssign)) and s.value is not None:
            for t in (s.targets if isinstance(s, ast.Assign) else [s.target]):
                if isinstance(t, ast.Name):
                    inits[t.id] = s.value
    globs = {n for g in ast.walk(setter) if isinstance(g, ast.Global) for n in g.names}
    stored = set()       # module-level names the setter writes (rebinding, item, attribute, ContextVar.set)
    for n in ast.walk(setter):
        if isinstance(n, (ast.Assign, ast.AugAssign, ast.AnnAssign)):
            for t in (n.targets if isinstance(n, ast.Assign) else [n.target]):
                if isinstance(t, ast.Name) and t.id in globs:
                    stored.add(t.id)
                if isinstance(t, (ast.Subscript, ast.Attribute)) and isinstance(t.value, ast.Name) and t.value.id in inits:
                    stored.add(t.value.id)
        if isinstance(n, ast.Call) and isinstance(n.func, ast.Attribute) and isinstance(n.func.value, ast.Name) and n.func.value.id in inits \
                and n.func.attr in ('set', 'update', '__setitem__', 'append', 'setdefault'):
            stored.add(n.func.value.id)
        if isinstance(n, ast.Call) and isinstance(n.func, ast.Name) and n.func.id == 'setattr' and n.args and isinstance(n.args[0], ast.Name) and n.args[0].id in inits:
            stored.add(n.args[0].id)
    read = {n.id for r in ast.walk(getter) if isinstance(r, ast.Return) and r.value is not None for n in ast.walk(r.value) if isinstance(n, ast.Name)}
    rep.check(bool(stored & read), R, w, 'lang:setter-getter', 'get_global_language returns what set_global_language_to stored (%s)' % sorted(stored & read),
              'set_global_language_to stores into %s, get_global_language reads %s: %s' % (sorted(stored), sorted(read & set(inits)), consequence))
    scoped = []
    for nm in sorted(stored | (read & set(inits))):
        v = inits.get(nm)
        if isinstance(v, ast.Call) and src(v.func) in SCOPED_STORES:
            scoped.append('%s = %s' % (nm, src(v)[:40]))
    rep.check(not scoped, R, w, 'lang:process-wide', 'the selected language is kept in a plain module-level object: one setting for the whole process',
              'the selected language is kept per thread / per context (%s): a language selected once at start-up is not the one seen on another thread, which '
              'falls back to the default -- %s' % ('; '.join(scoped), consequence))


# ---------------------------------------------------------------------------------------------------------------------
# what survives pickling / copying
# ---------------------------------------------------------------------------------------------------------------------
REDUCE_EXAMPLE = '''
class Node(object):
    def __init__(self, cat, children, label, head=True):
        self.cat = cat
        self.children = children
        self.label = label
        self.head = head

    def __reduce__(self):
        return (Node, (self.cat, self.children, self.label))
'''


def lossy_serialisers(cls):
    """the results of parsing.run travel through pickle between the worker processes and the caller, and the printers /
    tools copy trees: a class that says itself how it is pickled or copied must carry every field its constructor sets.
    -> [(node, text)] for __reduce__ / __reduce_ex__ / __getnewargs__ / __getstate__ / __copy__ / __deepcopy__ that drop a field"""
    out = []
    init = [f for f in cls.body if isinstance(f, ast.FunctionDef) and f.name == '__init__']
    if not init:
        return out
    init = init[0]
    params = [a.arg for a in init.args.posonlyargs + init.args.args][1:] + [a.arg for a in init.args.kwonlyargs]
    n_required = len(init.args.posonlyargs + init.args.args) - 1 - len(init.args.defaults)
    field_of = {}       # constructor parameter -> field it is stored in
    fields = []
    for s in ast.walk(init):
        if isinstance(s, (ast.Assign, ast.AnnAssign)) and s.value is not None:
            for t in (s.targets if isinstance(s, ast.Assign) else [s.target]):
                if isinstance(t, ast.Attribute) and isinstance(t.value, ast.Name) and t.value.id == 'self':
                    fields.append(t.attr)
                    if isinstance(s.value, ast.Name) and s.value.id in params:
                        field_of[s.value.id] = t.attr
    for f in cls.body:
        if not isinstance(f, ast.FunctionDef):
            continue
        rets = [r.value for r in ast.walk(f) if isinstance(r, ast.Return) and r.value is not None]
        if f.name in ('__reduce__', '__reduce_ex__', '__getnewargs__', '__getnewargs_ex__'):
            for r in rets:
                args = None
                state = None
                if f.name.startswith('__reduce') and isinstance(r, ast.Tuple) and len(r.elts) >= 2 and isinstance(r.elts[1], ast.Tuple) \
                        and isinstance(r.elts[0], ast.Name) and r.elts[0].id == cls.name:
                    args = r.elts[1].elts
                    state = r.elts[2] if len(r.elts) > 2 else None
                elif f.name == '__getnewargs__' and isinstance(r, ast.Tuple):
                    args = r.elts
                if args is None:
                    continue
                carried = set()
                for i, a in enumerate(args):
                    if i < len(params) and isinstance(a, ast.Attribute) and isinstance(a.value, ast.Name) and a.value.id == 'self':
                        carried.add(a.attr)
                if state is not None:
                    carried |= {n.attr for n in ast.walk(state) if isinstance(n, ast.Attribute) and isinstance(n.value, ast.Name) and n.value.id == 'self'}
                    if any(isinstance(n, ast.Attribute) and n.attr == '__dict__' for n in ast.walk(state)) or \
                            any(isinstance(n, ast.Call) and isinstance(n.func, ast.Name) and n.func.id == 'vars' for n in ast.walk(state)):
                        carried |= set(fields)
                missing = [x for x in dict.fromkeys(fields) if x not in carried]
                wrong = [(params[i], src(a)) for i, a in enumerate(args) if i < len(params) and params[i] in field_of
                         and isinstance(a, ast.Attribute) and isinstance(a.value, ast.Name) and a.value.id == 'self' and a.attr != field_of[params[i]] and a.attr in fields]
                if missing or wrong or len(args) < n_required:
                    out.append((f, '%s.%s rebuilds the object from %s: %s' % (
                        cls.name, f.name, [src(a) for a in args],
                        ('the field(s) %s are not carried and come back as the constructor default' % missing) if missing else
                        ('arguments in the wrong place: %s' % wrong) if wrong else 'too few constructor arguments')))
        if f.name == '__getstate__':
            for r in rets:
                if isinstance(r, (ast.Dict, ast.Tuple, ast.List)):
                    carried = {n.attr for n in ast.walk(r) if isinstance(n, ast.Attribute) and isinstance(n.value, ast.Name) and n.value.id == 'self'}
                    missing = [x for x in dict.fromkeys(fields) if x not in carried]
                    if missing:
                        out.append((f, '%s.__getstate__ saves %s: the field(s) %s are lost' % (cls.name, src(r)[:60], missing)))
        if f.name in ('__copy__', '__deepcopy__'):
            for r in rets:
                if isinstance(r, ast.Call) and isinstance(r.func, ast.Name) and r.func.id in (cls.name,) or (
                        isinstance(r, ast.Call) and src(r.func) in ('type(self)', 'self.__class__')):
                    carried = {n.attr for n in ast.walk(r) if isinstance(n, ast.Attribute) and isinstance(n.value, ast.Name) and n.value.id == 'self'}
                    missing = [x for x in dict.fromkeys(fields) if x not in carried]
                    if missing:
                        out.append((f, '%s.%s builds the copy as %s: the field(s) %s are not carried' % (cls.name, f.name, src(r)[:60], missing)))
    return out


def r_serialisation_complete(repo, rep, R, targets, consequence):
    """targets: [(file, class name)]"""
    from .core import attach_parents
    ex = attach_parents(ast.parse(REDUCE_EXAMPLE))
    if len(lossy_serialisers(ex.body[0])) != 1:
        raise AnalysisError('the serialisation rule does not match its positive example')
    for rel, cname in targets:
        mod = repo.module(rel)
        cls = mod.get(cname, required=False) if hasattr(mod, 'get') else None
        if not isinstance(cls, ast.ClassDef):
            cands = [c for c in ast.walk(mod.tree) if isinstance(c, ast.ClassDef) and c.name == cname]
            if not cands:
                raise AnalysisError('%s: class %s not found' % (rel, cname))
            cls = cands[0]
        hits = lossy_serialisers(cls)
        own = [f.name for f in cls.body if isinstance(f, ast.FunctionDef) and f.name in ('__reduce__', '__reduce_ex__', '__getnewargs__', '__getstate__', '__setstate__', '__copy__', '__deepcopy__')]
        rep.check(not hits, R, '%s:%s %s' % (rel, hits[0][0].lineno if hits else cls.lineno, cname), '%s:%s:serialisation' % (rel, cname),
                  '%s is pickled and copied %s: every field its constructor sets travels' % (cname, 'by its own methods %s, which carry every field' % own if own else 'field by field (no method of its own)'),
                  '%s -- %s' % ('; '.join(t for _, t in hits), consequence))


# ---------------------------------------------------------------------------------------------------------------------
# truth value of an XML element
# ---------------------------------------------------------------------------------------------------------------------
ELEMENT_TRUTH_EXAMPLE = '''
def build(flat):
    root = flat.find('span')
    return root


def assign(doc):
    tree = build(doc)
    if not tree:
        raise ValueError('no tree')
    return tree
'''


def element_truth_tests(tree, known=(), collect=None):
    """`if x` / `if not x` / `x and ..` / `assert x` on a name that holds an XML element: the truth value of an (lxml or
    ElementTree) element is "has children", not "is there" -- a terminal span, a token, the tree of a one-word sentence are
    false.  -> [(test node, function, name, where it was bound)].  A name holds an element when it is bound only from
    etree.Element / SubElement / fromstring / getroot, `.find(..)`, `deepcopy` of such a name, element `[k]` of an
    xpath / findall result, or a call of a function of the module whose every return value is such a name."""
    fns = {f.name: f for f in tree.body if isinstance(f, ast.FunctionDef)}
    returns_element = set(known)         # (functions of the other modules looked at, by name)

    def maker(v, env):
        if isinstance(v, ast.Call):
            f = src(v.func)
            if f in ('etree.Element', 'etree.SubElement', 'Element', 'SubElement', 'etree.fromstring', 'fromstring', 'ET.Element', 'ET.SubElement') or f.endswith('.getroot') or f.endswith('.find'):
                return f
            if f in ('copy.deepcopy', 'deepcopy', 'copy.copy') and v.args and isinstance(v.args[0], ast.Name) and v.args[0].id in env:
                return 'a copy of %s' % v.args[0].id
            if f in ('copy.deepcopy', 'deepcopy') and v.args and maker(v.args[0], env):
                return 'a copy of an element'
            if isinstance(v.func, ast.Name) and v.func.id in returns_element:
                return '%s(..)' % v.func.id
            if isinstance(v.func, ast.Attribute) and v.func.attr in returns_element and isinstance(v.func.value, ast.Name) and v.func.value.id not in ('self',):
                return '%s(..)' % src(v.func)
        if isinstance(v, ast.Subscript) and isinstance(v.slice, ast.Constant) and isinstance(v.slice.value, int):
            b = v.value
            if isinstance(b, ast.Call) and (src(b.func).endswith('.xpath') or src(b.func).endswith('.findall')):
                return 'an element of %s' % src(b.func)
            if isinstance(b, ast.Name) and env.get(b.id, '').startswith('list:'):
                return 'an element of %s' % b.id
        if isinstance(v, ast.Name) and v.id in env and not env[v.id].startswith('list:'):
            return env[v.id]
        return None

    def env_of(fn):
        env = {}
        for _ in range(3):
            by_name = {}
            for a in ast.walk(fn):
                if isinstance(a, ast.Assign) and len(a.targets) == 1 and isinstance(a.targets[0], ast.Name) and enclosing_function(a) is fn:
                    by_name.setdefault(a.targets[0].id, []).append(a.value)
            for nm, vals in by_name.items():
                ms = [maker(v, env) for v in vals]
                if all(ms):
                    env[nm] = ms[0]
                elif all(isinstance(v, ast.Call) and (src(v.func).endswith('.xpath') or src(v.func).endswith('.findall')) for v in vals):
                    env[nm] = 'list:' + src(vals[0].func)
        # loop variables / parameters / other bindings shadow
        for a in ast.walk(fn):
            if isinstance(a, (ast.For, ast.comprehension)):
                for x in ast.walk(a.target):
                    if isinstance(x, ast.Name):
                        env.pop(x.id, None)
        return env
    for _ in range(3):
        for name, fn in fns.items():
            env = env_of(fn)
            rets = [r.value for r in ast.walk(fn) if isinstance(r, ast.Return) and enclosing_function(r) is fn]
            some = [r for r in rets if r is not None and not (isinstance(r, ast.Constant) and r.value is None)]
            if some and all(maker(r, env) for r in some):       # an element, or None for "not there"
                returns_element.add(name)
    if collect is not None:
        collect |= returns_element
    out = []
    for fn in [f for f in ast.walk(tree) if isinstance(f, ast.FunctionDef)]:
        env = {k: v for k, v in env_of(fn).items() if not v.startswith('list:')}
        if not env:
            continue

        def truth_uses(e):
            if isinstance(e, ast.Name) and e.id in env:
                yield e
            elif isinstance(e, ast.UnaryOp) and isinstance(e.op, ast.Not):
                for x in truth_uses(e.operand):
                    yield x
            elif isinstance(e, ast.BoolOp):
                for v in e.values:
                    for x in truth_uses(v):
                        yield x
        for n in ast.walk(fn):
            if enclosing_function(n) is not fn:
                continue
            tests = []
            if isinstance(n, (ast.If, ast.While, ast.IfExp)):
                tests.append(n.test)
            if isinstance(n, ast.Assert):
                tests.append(n.test)
            if isinstance(n, ast.Call) and isinstance(n.func, ast.Name) and n.func.id == 'bool' and n.args:
                tests.append(n.args[0])
            for t in tests:
                for x in truth_uses(t):
                    out.append((x, fn, x.id, env[x.id]))
    return out


def r_element_truth(repo, rep, R, files, consequence):
    from .core import attach_parents
    ex = attach_parents(ast.parse(ELEMENT_TRUTH_EXAMPLE))
    if [(h[2], h[0].lineno) for h in element_truth_tests(ex)] != [('tree', 9)]:
        raise AnalysisError('the element-truth rule does not match its positive example')
    n = 0
    known = set()
    for _ in range(2):
        for rel in files:
            element_truth_tests(repo.module(rel).tree, known, known)
    for rel in files:
        mod = repo.module(rel)
        hits = element_truth_tests(mod.tree, known)
        n += 1
        for node, fn, name, how in hits:
            rep.check(False, R, '%s:%s %s' % (rel, node.lineno, qualname_of(fn)), '%s:%s:element-truth:%s' % (rel, qualname_of(fn), name), '',
                      '`%s` holds an XML element (%s) and is tested for truth: an element without children is false -- %s' % (name, how, consequence))
    rep.check(True, R, files[0], 'xml:element-truth', 'no XML element is tested for truth in %d modules (presence is tested with `is None`)' % n, '')


# ---------------------------------------------------------------------------------------------------------------------
# a generator hands out the same container again and again
# ---------------------------------------------------------------------------------------------------------------------
YIELD_SHARED_EXAMPLE = '''
def read(sentences):
    tokens = []
    for sentence in sentences:
        tokens.clear()
        for t in sentence:
            tokens.append(t)
        yield Result(sentence.id, tokens)
'''


def shared_yields(tree):
    """a generator that yields, from inside a loop, a container it created before the loop and refills in every round:
    every result holds the same object, so once the caller has collected them (list(..)) they all show the last round's
    contents.  -> [(yield node, function, name, loop)]"""
    out = []
    WR = {'clear', 'append', 'extend', 'insert', 'pop', 'remove', 'update', 'setdefault', 'add', 'discard', 'popitem', 'sort', 'reverse', '__setitem__'}
    for fn in [f for f in ast.walk(tree) if isinstance(f, ast.FunctionDef)]:
        ys = [y for y in ast.walk(fn) if isinstance(y, ast.Yield) and y.value is not None and enclosing_function(y) is fn]
        for y in ys:
            loops = [p_ for p_ in _parents_in(y, fn) if isinstance(p_, (ast.For, ast.While))]
            if not loops:
                continue
            L = loops[-1]          # the outermost loop around the yield
            inside = list(ast.walk(L))
            for nm in sorted({x.id for x in ast.walk(y.value) if isinstance(x, ast.Name)}):
                binds = [a for a in ast.walk(fn) if isinstance(a, ast.Assign) and enclosing_function(a) is fn
                         and any(isinstance(t, ast.Name) and t.id == nm for tt in a.targets for t in ast.walk(tt))]
                if not binds or any(b in inside for b in binds):
                    continue
                created = all(isinstance(b.value, (ast.List, ast.Dict, ast.Set, ast.Tuple)) or
                              (isinstance(b.value, ast.Call) and src(b.value.func) in ('list', 'dict', 'set', 'collections.OrderedDict', 'OrderedDict', 'defaultdict', 'collections.defaultdict', 'deque', 'collections.deque'))
                              for b in binds)
                if not created or any(b.lineno > L.lineno for b in binds):
                    continue
                if any(isinstance(x, ast.Name) and x.id == nm and isinstance(x.ctx, ast.Store) for x in inside):
                    continue
                refilled = any(isinstance(c, ast.Call) and isinstance(c.func, ast.Attribute) and isinstance(c.func.value, ast.Name) and c.func.value.id == nm and c.func.attr in WR for c in inside) or \
                    any(isinstance(s_, ast.Subscript) and isinstance(s_.ctx, (ast.Store, ast.Del)) and isinstance(s_.value, ast.Name) and s_.value.id == nm for s_ in inside)
                # handed over as it is (not copied: list(x), x[:], dict(x), tuple(x))
                raw = any(isinstance(x, ast.Name) and x.id == nm and not (
                    isinstance(getattr(x, '_parent', None), ast.Call) and src(x._parent.func) in ('list', 'tuple', 'dict', 'set', 'sorted', 'copy.copy', 'copy.deepcopy', 'len', 'frozenset') and x in x._parent.args)
                    and not isinstance(getattr(x, '_parent', None), ast.Subscript) for x in ast.walk(y.value))
                if refilled and raw:
                    out.append((y, fn, nm, L))
    return out


def r_yields_fresh(repo, rep, R, targets, consequence):
    """targets: [(file, function name)]"""
    from .core import attach_parents
    ex = attach_parents(ast.parse(YIELD_SHARED_EXAMPLE))
    if [(h[2], h[0].lineno) for h in shared_yields(ex)] != [('tokens', 8)]:
        raise AnalysisError('the shared-yield rule does not match its positive example')
    for rel, name in targets:
        mod = repo.module(rel)
        fn = mod.get(name)
        hits = [h for h in shared_yields(mod.tree) if h[1] is fn or any(p_ is fn for p_ in _parents_in(h[1], None))]
        rep.check(not hits, R, '%s:%s %s' % (rel, hits[0][0].lineno if hits else fn.lineno, name), '%s:%s:yields-shared' % (rel, name),
                  '%s hands out objects made for that result' % name,
                  '%s yields `%s`, a container created once before the loop at line %s and refilled in every round: all results hold the same object -- %s'
                  % (name, hits[0][2] if hits else '', hits[0][3].lineno if hits else 0, consequence))


# ---------------------------------------------------------------------------------------------------------------------
# values that differ from one run / one moment to the next
# ---------------------------------------------------------------------------------------------------------------------
AMBIENT_MODULES = {'time', 'datetime', 'random', 'uuid', 'secrets', 'getpass', 'socket', 'platform', 'tempfile'}
AMBIENT_CALLS = {'os.getpid', 'os.urandom', 'os.getenv', 'os.getcwd', 'os.times', 'os.getlogin', 'os.uname', 'id', 'hash', 'threading.get_ident', 'threading.current_thread'}
AMBIENT_EXAMPLE = '''
from datetime import datetime


def page(trees):
    stamp = datetime.now().isoformat()
    return '<footer>%s</footer>' % stamp
'''


def ambient_reads(tree):
    """calls whose value is not a function of the arguments: the clock, random numbers, process / host identity, the
    address of an object (id, and hash of anything whose hash is address- or seed-based).  -> [(call node, function, text)]"""
    imported = {}       # local name -> 'module' or 'module.attr'
    for st in ast.walk(tree):
        if isinstance(st, ast.Import):
            for al in st.names:
                if al.name.split('.')[0] in AMBIENT_MODULES:
                    imported[al.asname or al.name.split('.')[0]] = al.name.split('.')[0]
        if isinstance(st, ast.ImportFrom) and st.module and st.module.split('.')[0] in AMBIENT_MODULES:
            for al in st.names:
                imported[al.asname or al.name] = '%s.%s' % (st.module, al.name)
    out = []
    for c in ast.walk(tree):
        if not isinstance(c, ast.Call):
            continue
        f = c.func
        txt = src(f)
        root = f
        while isinstance(root, ast.Attribute):
            root = root.value
        hit = None
        if isinstance(root, ast.Name) and root.id in imported and not (isinstance(f, ast.Name) and imported[root.id].endswith(('.sleep', '.timedelta', '.date', '.time'))):
            if txt.split('.')[-1] not in ('sleep', 'timedelta', 'strptime', 'fromisoformat'):
                hit = '%s (%s)' % (txt, imported[root.id])
        if txt in AMBIENT_CALLS and (txt not in ('id', 'hash') or c.args):
            hit = txt
        if hit:
            fn = enclosing_function(c)
            out.append((c, fn, hit))
    return out


def r_no_ambient_reads(repo, rep, R, files, consequence, allow=()):
    from .core import attach_parents
    ex = attach_parents(ast.parse(AMBIENT_EXAMPLE))
    if [h[2] for h in ambient_reads(ex)] != ['datetime.now (datetime.datetime)']:
        raise AnalysisError('the ambient-value rule does not match its positive example: %s' % [h[2] for h in ambient_reads(ex)])
    n = 0
    for rel in files:
        mod = repo.module(rel)
        n += 1
        for node, fn, what in ambient_reads(mod.tree):
            if what.split(' ')[0] in allow:
                continue
            rep.check(False, R, '%s:%s %s' % (rel, node.lineno, qualname_of(fn) if fn is not None else '<module>'),
                      '%s:%s:ambient:%s' % (rel, qualname_of(fn) if fn is not None else '<module>', what.split(' ')[0]), '',
                      '%s is read while rendering: its value is not determined by the parse results -- %s' % (what, consequence))
    rep.check(True, R, files[0], 'printers:no-ambient-values', 'what is written is computed from the parse results alone: no clock, random number, process identity or object address is read in %d modules' % n, '')


# ---------------------------------------------------------------------------------------------------------------------
# functions defined in a loop that read the loop's variable when they are *called*
# ---------------------------------------------------------------------------------------------------------------------
LATE_BINDING_EXAMPLE = '''
rules = []
for symbol, pattern in TABLE:
    def rule(x, y, pattern=pattern):
        if match(pattern, x, y):
            return Result(x, symbol)
        return None
    rules.append(rule)
'''


def late_bound_reads(tree):
    """a function (or lambda) defined in the body of a loop and stored for later (appended / added / put into a table) that reads a
    name the loop rebinds in every round, not as one of its own defaults but as a free name: a name is looked up when the function
    runs, so every stored function sees the value of the last round.  -> [(function node, free name, loop, storing node)]"""
    STORE = {'append', 'add', 'insert', 'extend', 'setdefault', 'update', 'register', 'appendleft'}
    out = []
    for L in [n for n in ast.walk(tree) if isinstance(n, (ast.For, ast.While))]:
        scope = enclosing_function(L)
        varying = set()
        if isinstance(L, ast.For):
            varying |= {x.id for x in ast.walk(L.target) if isinstance(x, ast.Name)}
        for st in L.body:
            for x in ast.walk(st):
                if isinstance(x, ast.Name) and isinstance(x.ctx, ast.Store) and enclosing_function(x) is scope:
                    varying.add(x.id)
        for F in [f for st in L.body for f in ast.walk(st) if isinstance(f, (ast.FunctionDef, ast.Lambda)) and enclosing_function(f) is scope]:
            params = {a.arg for a in F.args.posonlyargs + F.args.args + F.args.kwonlyargs}
            if F.args.vararg:
                params.add(F.args.vararg.arg)
            if F.args.kwarg:
                params.add(F.args.kwarg.arg)
            body = F.body if isinstance(F.body, list) else [F.body]
            own = {x.id for s in body for x in ast.walk(s) if isinstance(x, ast.Name) and isinstance(x.ctx, ast.Store)} | \
                  {a.arg for s in body for f2 in ast.walk(s) if isinstance(f2, (ast.FunctionDef, ast.Lambda)) for a in f2.args.args}
            free = sorted({x.id for s in body for x in ast.walk(s) if isinstance(x, ast.Name) and isinstance(x.ctx, ast.Load)} - params - own)
            late = [n for n in free if n in varying and not (isinstance(F, ast.FunctionDef) and n == F.name)]
            if not late:
                continue
            # is the function object kept beyond the round?
            stored = None
            if isinstance(F, ast.Lambda):
                refs = [F]
            else:
                refs = [x for st in L.body for x in ast.walk(st) if isinstance(x, ast.Name) and x.id == F.name and isinstance(x.ctx, ast.Load)]
            for r in refs:
                p = getattr(r, '_parent', None)
                while isinstance(p, (ast.Tuple, ast.List, ast.Starred)):
                    r, p = p, getattr(p, '_parent', None)
                if isinstance(p, ast.Call) and r in p.args and isinstance(p.func, ast.Attribute) and p.func.attr in STORE:
                    stored = p
                elif isinstance(p, ast.Assign) and p.value is r and any(isinstance(t, (ast.Subscript, ast.Attribute)) for t in p.targets):
                    stored = p
                elif isinstance(p, ast.keyword) and isinstance(getattr(p, '_parent', None), ast.Call) and isinstance(p._parent.func, ast.Attribute) and p._parent.func.attr in STORE:
                    stored = p._parent
                elif isinstance(p, ast.Yield):
                    stored = p
            if stored is not None:
                for n in late:
                    out.append((F, n, L, stored))
    return out


def r_late_binding(repo, rep, R, files, consequence):
    from .core import attach_parents
    ex = attach_parents(ast.parse(LATE_BINDING_EXAMPLE))
    if [(h[1], h[0].lineno, h[3].lineno) for h in late_bound_reads(ex)] != [('symbol', 4, 8)]:
        raise AnalysisError('the late-binding rule does not match its positive example')
    n = 0
    for rel in files:
        tree = attach_parents(ast.parse(repo.text(rel)))        # the text as written: the loops are taken apart before the rules read the module
        hits = late_bound_reads(tree)
        n += 1
        for F, name, L, st in hits:
            fname = getattr(F, 'name', '<lambda>')
            rep.violation(R, '%s:%s %s' % (rel, F.lineno, fname), '%s:%s:late-bound:%s' % (rel, fname, name),
                          '%s, defined in the loop at line %s and stored at line %s, reads `%s` as a free name: the name is looked up when the function is called, '
                          'after the loop has finished, so every stored function sees the value of the last round -- %s' % (fname, L.lineno, st.lineno, name, consequence))
        if not hits:
            rep.ok(R, '%s' % rel, '%s: no function defined in a loop and kept reads a loop variable as a free name' % rel, nontrivial=False)
    return n
