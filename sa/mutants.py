"""Self-test variants (see selftest.py).  `props` lists the checks that must fire
(expect='fire') or must all stay silent (expect='silent')."""

H = 'depccg/parsing.h'
PYX = 'depccg/parsing.pyx'

VARIANTS = []


def V(id, file, old, new, props, expect='fire', count=1):
    VARIANTS.append({'id': id, 'file': file, 'old': old, 'new': new, 'props': props,
                     'expect': expect, 'count': count})


def V2(id, edits, props, expect='fire'):
    VARIANTS.append({'id': id, 'edits': [dict(file=f, old=o, new=n, count=c) for f, o, n, c in edits],
                     'props': props, 'expect': expect})


# ---------------------------------------------------------------- parsing.h
V('h-op-lt-flip', H, 'return left.score() < right.score();', 'return left.score() > right.score();', ['C01'])
V('h-score-in-only', H, 'float score() const { return in_score + out_score; }',
  'float score() const { return in_score; }', ['C01', 'C09'])
V('h-binary-out-minus', H, 'dep_out_scores(start_of_span, end_of_span) +\n                                          best_dep_scores[head->head_id];',
  'dep_out_scores(start_of_span, end_of_span) -\n                                          best_dep_scores[head->head_id];', ['C01'], count=2)
V('h-binary-out-drop-head', H, 'dep_out_scores(start_of_span, end_of_span) +\n                                          best_dep_scores[head->head_id];',
  'dep_out_scores(start_of_span, end_of_span);', ['C01'], count=2)
V('h-dep-plus1-dropped', H, 'float dep_score = dep_in_scores(child->head_id, head->head_id + 1);',
  'float dep_score = dep_in_scores(child->head_id, head->head_id);', ['C01', 'C09'], count=2)
V('h-dep-args-swapped', H, 'float dep_score = dep_in_scores(child->head_id, head->head_id + 1);',
  'float dep_score = dep_in_scores(head->head_id, child->head_id + 1);', ['C01', 'C09'], count=2)
V('h-goal-dep-swapped', H, 'item->in_score + dep_in_scores(item->head_id, 0),', 'item->in_score + dep_in_scores(0, item->head_id),', ['C01', 'C09'])
V('h-goal-out-nonzero', H, '                     0.0,\n                     item->start_of_span,', '                     item->out_score,\n                     item->start_of_span,', ['C01', 'C09'])
V('h-unary-penalty-sign', H, 'item->in_score - config->unary_penalty,', 'item->in_score + config->unary_penalty,', ['C01', 'C09'])
V('h-leaf-out-no-dall', H, 'float out_score = tag_out_scores(token_id, token_id + 1) + dep_leaf_out_score;',
  'float out_score = tag_out_scores(token_id, token_id + 1);', ['C01'])
V('h-leaf-out-wrong-span', H, 'float out_score = tag_out_scores(token_id, token_id + 1) + dep_leaf_out_score;',
  'float out_score = tag_out_scores(token_id, token_id) + dep_leaf_out_score;', ['C01'])
V('h-outside-loop-short', H, 'for (unsigned i = 0; i < length - 1; i++)\n        {\n            unsigned j = length - i;',
  'for (unsigned i = 0; i < length - 2; i++)\n        {\n            unsigned j = length - i;', ['C01'])
V('h-outside-right-off', H, 'from_right[j - 1] = from_right[j] + probs[j - 1];', 'from_right[j - 1] = from_right[j] + probs[j];', ['C01'])
V('h-outside-left-off', H, 'from_left[i + 1] = from_left[i] + probs[i];', 'from_left[i + 1] = from_left[i] + probs[i + 1];', ['C01'])
V('h-outside-table-swapped', H, 'out(i, j) = from_left[i] + from_right[j];', 'out(i, j) = from_left[j] + from_right[i];', ['C01'])
V('h-bd-not-max', H, 'best_dep_scores[token_id] = dep_in_scores(token_id, max_id);', 'best_dep_scores[token_id] = dep_in_scores(token_id, 0);', ['C01'])
V('h-dall-skips', H, 'dep_leaf_out_score += dep_in_scores(token_id, max_id);', 'dep_leaf_out_score += dep_in_scores(token_id, 0);', ['C01'])
V('h-update-drop-nbest-test', H, 'if (!nbest_ && cell_.contains(item.cat))', 'if (cell_.contains(item.cat))', ['C01', 'C10'])
V('h-update-never-dedup', H, 'if (!nbest_ && cell_.contains(item.cat))', 'if (!nbest_ && false)', ['C01'])
V('h-contains-inverted', H, 'return category_ids.count(cat) > 0;', 'return category_ids.count(cat) == 0;', ['C01'])
V('h-fail-status-inverted', H, 'if (goal.size() == 0)\n        return 1;', 'if (goal.size() != 0)\n        return 1;', ['C01'])
V('h-argmax-strict-first', H, 'dep_in_scores.argmax(token_id);', 'dep_in_scores.argmax(0);', ['C01'])
V('h-head-flag-flipped', H, 'auto head = rule_result.head_is_left ? item : &other;\n                        auto child = rule_result.head_is_left ? &other : item;',
  'auto head = rule_result.head_is_left ? &other : item;\n                        auto child = rule_result.head_is_left ? item : &other;', ['C01', 'C09'])
V('h-headid-from-child', H, '                             head->head_id,\n                             rule_result.rule_id});', '                             child->head_id,\n                             rule_result.rule_id});', ['C09'], count=2)
# C02
V('h-binary-args-swapped', H, '*apply_binary_rules(other.cat, item->cat)', '*apply_binary_rules(item->cat, other.cat)', ['C02'])
V('h-binary-ptrs-swapped', H, '                             &other,\n                             item,\n                             in_score,', '                             item,\n                             &other,\n                             in_score,', ['C02'])
V('h-root-test-dropped', H, 'if (item->span_length == length && possible_root_cats.count(item->cat))', 'if (item->span_length == length)', ['C02'])
V('h-unary-at-root', H, 'if (length == 1 || item->span_length != length)', 'if (true)', ['C02'])
V('h-wrong-neighbour-cells', H, 'chart.cells_ending_at(item->start_of_span)', 'chart.cells_ending_at(item->end_of_span())', ['C02'])
V('h-register-off-by-one', H, 'ending_cells_[row + column + 1].push_back(&cell_);', 'ending_cells_[row + column].push_back(&cell_);', ['C02', 'C01'])
V('h-span-length-wrong', H, 'unsigned span_length = item->span_length + other.span_length;', 'unsigned span_length = item->span_length + 1;', ['C02'], count=2)
V('h-leaf-cat-from-index', H, '                     score_and_cat.second,\n', '                     i,\n', ['C02'])
# C10
V('h-sort-ascending', H, 'return s1.score() > s2.score();', 'return s1.score() < s2.score();', ['C10'])
V('h-no-sort', H, '    cell.sort();\n', '', ['C10'])
V('h-chart-never-nbest', H, 'parsing::chart chart(length, config->nbest > 1);', 'parsing::chart chart(length, false);', ['C10'])
V('h-goal-never-nbest', H, 'parsing::chart goal(1, config->nbest > 1);', 'parsing::chart goal(1, false);', ['C10'])
V('h-token-counter-shared', H, '    for (auto &item : cell)\n    {\n        unsigned token_id = 0;', '    unsigned token_id = 0;\n    for (auto &item : cell)\n    {', ['C10', 'C02'])
V('h-loop-ignores-nbest', H, 'goal.size() < config->nbest && agenda.size()', 'goal.size() < 1 && agenda.size()', ['C10'])
# C12
V('h-unary-ruleid-zero', H, '                         unary.rule_id});', '                         0});', ['C12'])
V('h-binary-ruleid-zero', H, '                             rule_result.rule_id});', '                             0});', ['C12'], count=2)
V('h-goal-ruleid-zero', H, '                     item->head_id,\n                     item->rule_id});', '                     item->head_id,\n                     0});', ['C12'])
# C16
V('h-threshold-log-times-beta', H, 'std::exp(scored_cats[token_id].top().first) * config->beta', 'scored_cats[token_id].top().first * config->beta', ['C16'])
V('h-pruning-off-by-one', H, 'i < config->pruning_size && scored_cats', 'i <= config->pruning_size && scored_cats', ['C16'])
V('h-no-early-stop', H, '            else\n                break;\n', '', ['C16'])
V('h-beta-ignored', H, 'float threshold = config->use_beta ?', 'float threshold = false ?', ['C16'])
V('h-threshold-after-pop', H, 'if (std::exp(score_and_cat.first) > threshold)', 'if (std::exp(score_and_cat.first) > std::exp(scored_cats[token_id].top().first) * config->beta)', ['C16'])
# must stay silent: behaviour-preserving rewrites of parsing.h
V('h-silent-commute', H, 'float in_score = item->in_score + other.in_score + dep_score;', 'float in_score = dep_score + other.in_score + item->in_score;',
  ['C01', 'C02', 'C09', 'C10', 'C12', 'C16'], expect='silent', count=2)
V('h-silent-extract-local', H, 'float out_score = tag_out_scores(start_of_span, end_of_span) +\n                                          dep_out_scores(start_of_span, end_of_span) +\n                                          best_dep_scores[head->head_id];',
  'float head_best = best_dep_scores[head->head_id];\n                        float out_score = head_best + (tag_out_scores(start_of_span, end_of_span) +\n                                          dep_out_scores(start_of_span, end_of_span));',
  ['C01', 'C09'], expect='silent', count=2)
V('h-silent-rename-item', H, 'other', 'neighbour', ['C01', 'C02', 'C09', 'C12'], expect='silent', count=15)
V('h-silent-gt-form', H, 'return left.score() < right.score();', 'return right.score() > left.score();', ['C01'], expect='silent')
V('h-log-threshold-only', H,
  'float threshold = config->use_beta ? std::exp(scored_cats[token_id].top().first) * config->beta : std::numeric_limits<float>::lowest();',
  'float threshold = config->use_beta ? scored_cats[token_id].top().first + std::log(config->beta) : std::numeric_limits<float>::lowest();\n#define VERIF_LOGFORM 1',
  ['C01'])      # the admission rule (R1.6, shared with C16) is part of C01 since round 4: a threshold in another domain than the keep-test
V('h-log-threshold-only-c16', H,
  'float threshold = config->use_beta ? std::exp(scored_cats[token_id].top().first) * config->beta : std::numeric_limits<float>::lowest();\n        float out_score = tag_out_scores(token_id, token_id + 1) + dep_leaf_out_score;',
  'float threshold = config->use_beta ? scored_cats[token_id].top().first + std::log(config->beta) : std::numeric_limits<float>::lowest();\n        float out_score = tag_out_scores(token_id, token_id + 1) + dep_leaf_out_score;',
  ['C01'])
V2('h-silent-log-form-both', [
   (H, 'float threshold = config->use_beta ? std::exp(scored_cats[token_id].top().first) * config->beta : std::numeric_limits<float>::lowest();',
       'float threshold = config->use_beta ? scored_cats[token_id].top().first + std::log(config->beta) : std::numeric_limits<float>::lowest();', 1),
   (H, 'if (std::exp(score_and_cat.first) > threshold)', 'if (score_and_cat.first > threshold)', 1)], ['C16', 'C01', 'C02'], expect='silent')
V('p-beta-from-penalty', 'depccg/parsing.py', "'beta': beta,", "'beta': unary_penalty,", ['C16'])
V('m-use-beta-inverted', 'depccg/__main__.py', 'use_beta=not args.disable_beta,', 'use_beta=args.disable_beta,', ['C16'])
V('x-pruning-from-nbest', PYX, "c_config.pruning_size = kwargs.pop('pruning_size', 50)", "c_config.pruning_size = kwargs.pop('nbest', 50)", ['C16'])
V('a-disable-beta-store-false', 'depccg/argparse.py', "        '--disable-beta',\n        action='store_true',", "        '--disable-beta',\n        action='store_false',", ['C16'])

# ---------------------------------------------------------------- parsing.pyx
V('x-token-not-advanced', PYX, '        token_id[0] += 1\n', '', ['C02'])
V('x-token-advance-2', PYX, 'token_id[0] += 1', 'token_id[0] += 2', ['C02'])
V('x-pops-swapped', PYX, '        right = stack.pop()\n        left = stack.pop()', '        left = stack.pop()\n        right = stack.pop()', ['C02'])
V('x-cat-from-ruleid', PYX, "cat = kwargs['categories'][item.cat]", "cat = kwargs['categories'][item.rule_id]", ['C02'])
V('x-score-of-child', PYX, "kwargs['scores'].append(item.score())", "kwargs['scores'].append(item.left.score())", ['C09'])
V('x-score-on-every-node', PYX, "    cat = kwargs['categories'][item.cat]\n    stack = kwargs['stack']", "    cat = kwargs['categories'][item.cat]\n    kwargs['scores'].append(item.score())\n    stack = kwargs['stack']", ['C09', 'C10'])
V('x-id-off-by-one', PYX, "            categories_.append(cat)\n            category_ids[cat] = len(category_ids)", "            categories_.append(cat)\n            category_ids[cat] = len(categories_)", ['C02'])
V('x-enumerate-from-1', PYX, 'enumerate(apply_binary_rules(x, y))', 'enumerate(apply_binary_rules(x, y), 1)', ['C12'])
V('x-callback-filter', PYX, "        for rule_id, result in enumerate(apply_unary_rules(x)):\n            cat_id", "        for rule_id, result in enumerate(apply_unary_rules(x)):\n            if result.cat == x:\n                continue\n            cat_id", ['C12'])
V('x-callback-args-swapped', PYX, 'x, y = categories_[x_id], categories_[y_id]', 'x, y = categories_[y_id], categories_[x_id]', ['C02'])
V('x-scaffold-ruleid', PYX, 'c_result.rule_id = rule_id', 'c_result.rule_id = cat_id', ['C12'])
V('x-scaffold-symbol', PYX, "c_result.op_symbol = result.op_symbol.encode('utf-8')", "c_result.op_symbol = result.op_string.encode('utf-8')", ['C12'])
V('x-failed-score-zero', PYX, "score=-float('inf')", "score=0.0", ['C09', 'C11'])
V('x-status-gt-1', PYX, 'if status > 0:', 'if status > 1:', ['C11'])
V('x-buffers-outside-loop', PYX, "        results = []\n        scores = []\n", "", ['C10', 'C11'])
V('x-no-duplicate-check', PYX, 'if len(set(categories)) != len(categories):', 'if False:', ['C02', 'C11'])
V('x-table-aliases-caller', PYX, 'categories_ = copy.copy(categories)', 'categories_ = categories', ['C11', 'C02'])
V('x-head-dropped', PYX, "                combinator_result.head_is_left,\n", "", ['C12'])
V('x-unary-key-uses-cat', PYX, "            key.first = child_cat\n            key.second = -1", "            key.first = item.cat\n            key.second = -1", ['C12'])
V('x-binary-key-swapped', PYX, "        key.first = child_cat\n        key.second = right_child_cat", "        key.first = right_child_cat\n        key.second = child_cat", ['C12'])
V('x-too-long-no-continue', PYX, "            all_results.append(failed())\n            continue\n\n        results = []", "            all_results.append(failed())\n\n        results = []", ['C11'])
V('x-silent-score-inscore', PYX, "kwargs['scores'].append(item.score())", "kwargs['scores'].append(item.in_score)", ['C09', 'C10'], expect='silent')
V('x-silent-list-copy', PYX, 'categories_ = copy.copy(categories)', 'categories_ = list(categories)', ['C02', 'C11'], expect='silent')
V('x-silent-rename-stack', PYX, "    stack = kwargs['stack']", "    stack = kwargs['stack']\n    out_stack = stack", ['C02', 'C12'], expect='silent')

# ---------------------------------------------------------------- label recovery (C12)
G = 'depccg/grammar/__init__.py'
RD = 'depccg/tools/reader.py'
TR = 'depccg/tree.py'
V('g-guess-no-return', G, '            return rule\n', '            rule\n', ['C12'])
V('g-guess-inverted', G, 'if rule.cat == target:', 'if rule.cat != target:', ['C12'])
V('g-guess-args-swapped', G, 'for rule in binary_rules(x, y):', 'for rule in binary_rules(y, x):', ['C12'])
V('g-guess-first-result', G, '        if rule.cat == target:\n            return rule\n', '        return rule\n', ['C12'])
V('rd-xml-head-default', RD, "                        cat, left, right, rule.op_string, rule.op_symbol, rule.head_is_left\n                    )\n            else:\n                assert node.tag == 'lf'",
  "                        cat, left, right, rule.op_string, rule.op_symbol\n                    )\n            else:\n                assert node.tag == 'lf'", ['C12'])
V('rd-xml-triplet-swapped', RD, "                        binary_rules, cat, left.cat, right.cat\n                    )\n                    return Tree.make_binary(\n                        cat, left, right, rule.op_string, rule.op_symbol, rule.head_is_left\n                    )\n            else:\n                assert node.tag == 'lf'",
  "                        binary_rules, cat, right.cat, left.cat\n                    )\n                    return Tree.make_binary(\n                        cat, left, right, rule.op_string, rule.op_symbol, rule.head_is_left\n                    )\n            else:\n                assert node.tag == 'lf'", ['C12'])
V('tr-nltk-symbol-from-string', TR, 'cat, left, right, rule.op_string, rule.op_symbol, rule.head_is_left', 'cat, left, right, rule.op_string, rule.op_string, rule.head_is_left', ['C12'])
V('rd-ptb-short-call', RD, "                    combinator.op_string,\n                    combinator.op_symbol,\n                    combinator.head_is_left,\n", "                    combinator\n", ['C12', 'C20'])
V('rd-auto-unk-label', RD, "                cat, left, right, rule.op_string, rule.op_symbol, head_is_left\n", "                cat, left, right, 'unk', '<unk>', head_is_left\n", ['C12'])
V('rd-silent-rename-rule', RD, "            rule = guess_combinator_by_triplet(\n                self.binary_rules, cat, left.cat, right.cat\n            )\n            return Tree.make_binary(\n                cat, left, right, rule.op_string, rule.op_symbol, head_is_left\n",
  "            found = guess_combinator_by_triplet(\n                self.binary_rules, cat, left.cat, right.cat\n            )\n            return Tree.make_binary(\n                cat, left, right, op_string=found.op_string, op_symbol=found.op_symbol, head_is_left=head_is_left\n", ['C12'], expect='silent')

# ---------------------------------------------------------------- cat.py (C13, C05)
CAT = 'depccg/cat.py'
V('c-atom-eq-no-feature', CAT, "            self.base == other.base\n            and self.feature == other.feature\n", "            self.base == other.base\n", ['C13'])
V('c-functor-eq-no-slash', CAT, "            self.left == other.left\n            and self.slash == other.slash\n            and self.right == other.right", "            self.left == other.left\n            and self.right == other.right", ['C13'])
V('c-functor-xor-eq-right', CAT, "            and self.right ^ other.right", "            and self.right == other.right", ['C13'])
V('c-functor-xor-no-slash', CAT, "            self.left ^ other.left\n            and self.slash == other.slash\n", "            self.left ^ other.left\n", ['C13'])
V('c-atom-not-frozen', CAT, "@dataclass(frozen=True, repr=False)\nclass Atom(Category):", "@dataclass(repr=False)\nclass Atom(Category):", ['C13'])
V('c-functor-eq-false', CAT, "@dataclass(frozen=True, repr=False)\nclass Functor(Category):", "@dataclass(frozen=True, repr=False, eq=False)\nclass Functor(Category):", ['C13'])
V('c-atom-clear-inverted', CAT, "if self.feature in args:", "if self.feature not in args:", ['C13'])
V('c-functor-clear-left-only', CAT, "            self.left.clear_features(*args),\n            self.right.clear_features(*args)", "            self.left.clear_features(*args),\n            self.right", ['C13'])
V('c-truediv-backslash', CAT, "return Functor(self, '/', other)", "return Functor(self, '\\\\', other)", ['C13'])
V('c-atom-eq-str-base', CAT, "class Atom(Category):\n    base: str\n    feature: Feature = UnaryFeature()\n\n    def __str__(self) -> str:\n        feature = str(self.feature)\n        if len(feature) == 0:\n            return self.base\n        return f'{self.base}[{feature}]'\n\n    def __eq__(self, other: object) -> bool:\n        if isinstance(other, str):\n            return str(self) == other",
  "class Atom(Category):\n    base: str\n    feature: Feature = UnaryFeature()\n\n    def __str__(self) -> str:\n        feature = str(self.feature)\n        if len(feature) == 0:\n            return self.base\n        return f'{self.base}[{feature}]'\n\n    def __eq__(self, other: object) -> bool:\n        if isinstance(other, str):\n            return self.base == other", ['C13'])
V('c-ternary-eq-no-kv3', CAT, "            and self.kv2 == other.kv2\n            and self.kv3 == other.kv3", "            and self.kv2 == other.kv2", ['C13'])
V('c-functor-hash-id', CAT, "    @property\n    def functor(self)", "    def __hash__(self):\n        return id(self)\n\n    @property\n    def functor(self)", ['C13'])
V('c-silent-functor-explicit-hash', CAT, "    @property\n    def functor(self)", "    def __hash__(self):\n        return hash((self.left, self.slash))\n\n    @property\n    def functor(self)", ['C13'], expect='silent')
V('c-silent-eq-reordered', CAT, "            self.base == other.base\n            and self.feature == other.feature\n", "            self.feature == other.feature\n            and self.base == other.base\n", ['C13'], expect='silent')

# ---------------------------------------------------------------- grammars (C03, C04)
EN = 'depccg/grammar/en.py'
JA = 'depccg/grammar/ja.py'
V('en-gbx-forward-pattern', EN, 'uni = Unification("(b/c)|d", "a\\\\b")', 'uni = Unification("(b/c)|d", "a/b")', ['C03'])
V('en-fc-result-backslash', EN, "result = y if _is_modifier(x) else uni['a'] / uni['c']\n        return CombinatorResult(\n            cat=result,\n            op_string=\"fc\"",
  "result = y if _is_modifier(x) else uni['a'] | uni['c']\n        return CombinatorResult(\n            cat=result,\n            op_string=\"fc\"", ['C03'])
V('en-fa-returns-b', EN, "result = y if _is_modifier(x) else uni['a']\n        return CombinatorResult(\n            cat=result,\n            op_string=\"fa\"",
  "result = y if _is_modifier(x) else uni['b']\n        return CombinatorResult(\n            cat=result,\n            op_string=\"fa\"", ['C03'])
V('en-ba-modifier-returns-y', EN, "result = x if _is_modifier(y) else uni['a']", "result = y if _is_modifier(y) else uni['a']", ['C03'], count=2)
V('en-bx-no-np-restriction', EN, '        if str(uni["b"]) in ("N", "NP"):\n            return None\n        result = x if _is_modifier(y) else uni[\'a\'] / uni[\'c\']', '        result = x if _is_modifier(y) else uni[\'a\'] / uni[\'c\']', ['C03'])
V('en-bx-restriction-wrong-var', EN, '        if str(uni["b"]) in ("N", "NP"):\n            return None\n        result = x if _is_modifier(y) else uni[\'a\'] / uni[\'c\']', '        if str(uni["c"]) in ("N", "NP"):\n            return None\n        result = x if _is_modifier(y) else uni[\'a\'] / uni[\'c\']', ['C03'])
V('en-gfc-fixed-slash', EN, "result = y if _is_modifier(x) else y.functor(\n            (uni['a'] / uni['c']), uni['d'])", "result = y if _is_modifier(x) else (uni['a'] / uni['c']) / uni['d']", ['C03'])
V('en-gbx-slash-of-wrong-input', EN, "result = x if _is_modifier(y) else x.functor(\n            (uni['a'] / uni['c']), uni['d'])", "result = x if _is_modifier(y) else y.functor(\n            (uni['a'] / uni['c']), uni['d'])", ['C03'])
V('en-head-right', EN, 'op_string="gfc",\n            op_symbol=">B",\n            head_is_left=True,', 'op_string="gfc",\n            op_symbol=">B",\n            head_is_left=False,', ['C03', 'C01'])
V('en-unregistered', EN, '    generalized_forward_composition,\n    generalized_backward_composition,\n    conjunction,', '    generalized_backward_composition,\n    conjunction,', ['C03'])
V('en-dispatch-first-only', EN, "            if result is not None:\n                results.append(result)\n\n    return results", "            if result is not None:\n                results.append(result)\n                break\n\n    return results", ['C03', 'C14'])
V('en-fc-pattern-crossed', EN, 'uni = Unification("a/b", "b/c")', 'uni = Unification("a/b", "b\\\\c")', ['C03'])
V('en-punct-returns-literal', EN, "    if _is_punct(y):\n        result = x", "    if _is_punct(y):\n        result = Category.parse('S[dcl]')", ['C03'])
V('en-label-swapped', EN, 'op_string="fa",\n            op_symbol=">",', 'op_string="ba",\n            op_symbol="<",', ['C03'])
V('en-modifier-loose', EN, "    return x.is_functor and x.left == x.right", "    return x.is_functor and x.left ^ x.right", ['C03'])
V('en-silent-named-args', EN, "result = y if _is_modifier(x) else uni['a'] / uni['c']\n        return CombinatorResult(\n            cat=result,\n            op_string=\"fc\",\n            op_symbol=\">B\",\n            head_is_left=True,\n        )",
  "if _is_modifier(x):\n            out = y\n        else:\n            out = Functor(uni['a'], '/', uni['c'])\n        return CombinatorResult(out, \"fc\", \">B\", True)", ['C03'], expect='silent')
V('ja-bx1-slash', JA, "result = y if _is_modifier(x) else uni['a'] | uni['c']\n        return CombinatorResult(\n            cat=result,\n            op_string=\"fx\",\n            op_symbol=\">Bx1\"",
  "result = y if _is_modifier(x) else uni['a'] / uni['c']\n        return CombinatorResult(\n            cat=result,\n            op_string=\"fx\",\n            op_symbol=\">Bx1\"", ['C04'])
V('ja-b3-wrong-node', JA, "x.left.functor(uni['a'] | uni['c'], uni['d']), uni['e']", "x.functor(uni['a'] | uni['c'], uni['d']), uni['e']", ['C04'])
V('ja-b2-degree', JA, 'uni = Unification("(b\\\\c)|d", "a\\\\b")', 'uni = Unification("((b\\\\c)|d)|e", "a\\\\b")', ['C04'])
V('ja-head-left', JA, 'op_symbol="<B2",\n            head_is_left=False,', 'op_symbol="<B2",\n            head_is_left=True,', ['C04', 'C01'])
V('ja-sseq-one-sided', JA, "        x in _possible_root_categories\n        and y in _possible_root_categories", "        y in _possible_root_categories", ['C04'])
V('ja-sseq-returns-x', JA, "        result = y\n        return CombinatorResult(\n            cat=result,\n            op_string=\"other\"", "        result = x\n        return CombinatorResult(\n            cat=result,\n            op_string=\"other\"", ['C04'])
V('ja-unary-method-compare', JA, "        if x.nargs == 0:", "        if x.clear_features == 'S':", ['C04'])
V('ja-unary-adv-swapped', JA, "        if x.nargs == 1:\n            return 'ADV1'\n        elif x.nargs == 2:\n            return 'ADV2'", "        if x.nargs == 2:\n            return 'ADV1'\n        elif x.nargs == 1:\n            return 'ADV2'", ['C04'])
V('ja-unary-items-unguarded', JA, "set(feature.items()) if isinstance(feature, TernaryFeature) else set()", "set(feature.items())", ['C04', 'C14'])
V('ja-bx3-symbol', JA, 'op_symbol=">Bx3"', 'op_symbol=">Bx2"', ['C04'])
V('ja-silent-xor-form', JA, "        if x.nargs == 1:\n            return 'ADV1'", "        if x ^ Category.parse('S\\\\NP'):\n            return 'ADV1'", ['C04'], expect='silent')

# ---------------------------------------------------------------- unification (C06, C14)
U = 'depccg/unification.py'
V('u-no-done-check', U, "        if self.done:\n            raise RuntimeError(\n                \"cannot use the same Unification object more than once.\"\n            )\n        self.done = True", "        self.done = True", ['C06'])
V('u-done-not-set', U, "            )\n        self.done = True\n", "            )\n", ['C06'])
V('u-fail-leaves-success', U, "            else:\n                self.success = False\n                return False", "            else:\n                return False", ['C06'])
V('u-getitem-no-guard', U, "        assert self.success, \\\n            (\"the unification has not been successful. \"\n             \"Unification.__getitem__ is not callable in that case.\")\n\n", "", ['C06'])
V('u-no-wildcard', U, "s.slash == t.slash or '|' in (s.slash, t.slash))", "s.slash == t.slash)", ['C06'])
V('u-left-only', U, "                    scan(s.left, t.left, results) and scan(\n                        s.right, t.right, results)", "                    scan(s.left, t.left, results)", ['C06'])
V('u-shared-var-unchecked', U, "                if s.base in self.cats and not (t ^ self.cats[s.base]):\n                    return False\n", "", ['C06'])
V('u-one-sided-unify', U, "            elif y_feature.unifies(x_feature):\n                if y_feature.is_variable:\n                    self.mapping[y_feature] = x_feature\n", "", ['C06'])
V('u-map-always', U, "                if x_feature.is_variable:\n                    self.mapping[x_feature] = y_feature", "                self.mapping[x_feature] = y_feature", ['C06'])
V('u-set-iteration', U, "for var in sorted(meta_vars):", "for var in meta_vars:", ['C14'])
V('u-class-level-cache', U, "        self.cats: Dict[str, Category] = {}\n", "        self.cats: Dict[str, Category] = _SHARED\n", ['C14'], count=1)
V('c-ignorable-drops-nb', CAT, 'return self.value is None or self.value == "nb"', 'return self.value is None', ['C06'])
V('c-variable-is-Y', CAT, 'return self.value == "X"', 'return self.value == "Y"', ['C06'])
V('c-unary-unifies-strict', CAT, "            self.is_variable\n            or self.is_ignorable\n            or self == other", "            self.is_variable\n            or self == other", ['C06'])
V('en-uni-module-level', EN, 'def forward_application(x: Category, y: Category) -> Optional[CombinatorResult]:\n    uni = Unification("a/b", "b")\n', '_FA = Unification("a/b", "b")\n\n\ndef forward_application(x: Category, y: Category) -> Optional[CombinatorResult]:\n    uni = _FA\n', ['C06', 'C14'])
V('en-read-before-call', EN, '    uni = Unification("a/b", "b/c")\n    if uni(x, y):', '    uni = Unification("a/b", "b/c")\n    if uni[\'a\'] is not None and uni(x, y):', ['C06', 'C14'])
V('en-bad-key', EN, "result = y if _is_modifier(x) else y.functor(\n            (uni['a'] / uni['c']), uni['d'])", "result = y if _is_modifier(x) else y.functor(\n            (uni['a'] / uni['c']), uni['e'])", ['C06', 'C14'])
V('en-double-call', EN, '    uni = Unification("b", "a\\\\b")\n        if uni(x, y):', '    uni = Unification("b", "a\\\\b")\n        if uni(x, y) or uni(y, x):', ['C06'])
V('u-silent-raise-form', U, "        assert self.success, \\\n            (\"the unification has not been successful. \"\n             \"Unification.__getitem__ is not callable in that case.\")\n", "        if not self.success:\n            raise RuntimeError('the unification has not been successful')\n", ['C06'], expect='silent')

# ---------------------------------------------------------------- C14
V('en-gate-ignores-set', EN, "if seen_rules is None or seen_key in seen_rules:", "if seen_rules is None or seen_key:", ['C14'])
V('en-gate-key-raw', EN, "    seen_key = (\n        x.clear_features('X', 'nb'), y.clear_features('X', 'nb')\n    )", "    seen_key = (x, y)", ['C14'])
V('en-gate-per-result', EN, "            if result is not None:\n                results.append(result)", "            if result is not None and (seen_rules is None or (result.cat, y) in seen_rules):\n                results.append(result)", ['C14'])
V('en-nb-not-erased', EN, "key = (x.clear_features('nb'), y.clear_features('nb'))", "key = (x, y.clear_features('nb'))", ['C14'])
V('en-results-module-level', EN, "    results = []\n    if seen_rules is None or seen_key in seen_rules:", "    results = _RESULTS\n    if seen_rules is None or seen_key in seen_rules:", ['C14'])
V('en-memo-table', EN, "def apply_binary_rules(\n    x: Category,\n    y: Category,\n    seen_rules: Optional[Set[Pair[Category]]] = None,\n) -> List[CombinatorResult]:\n    key", "_MEMO = {}\n\n\ndef apply_binary_rules(\n    x: Category,\n    y: Category,\n    seen_rules: Optional[Set[Pair[Category]]] = None,\n) -> List[CombinatorResult]:\n    _MEMO[(x, y)] = seen_rules\n    key", ['C14'])
V('en-unary-mutates-table', EN, "    if x not in unary_rules:\n        return []\n    results = []\n    for result in unary_rules[x]:\n        type_raised", "    if x not in unary_rules:\n        unary_rules[x] = []\n        return []\n    results = []\n    for result in unary_rules[x]:\n        type_raised", ['C14'])
V('en-unary-skips-self', EN, "    for result in unary_rules[x]:\n        type_raised = (", "    for result in unary_rules[x]:\n        if result == x:\n            continue\n        type_raised = (", ['C14'])
V('en-unary-dedup', EN, "    for result in unary_rules[x]:\n        type_raised = (", "    for result in set(unary_rules[x]):\n        type_raised = (", ['C14'])
V('ja-unary-keyerror', JA, "    if x not in unary_rules:\n        return []\n    results = []\n    for result in unary_rules[x]:\n        op_string", "    results = []\n    for result in unary_rules[x]:\n        op_string", ['C14'])
V('en-unguarded-left', EN, "    return x.is_functor and x.left == x.right", "    return x.left == x.right", ['C14', 'C03'])
V('en-type-raised-unguarded', EN, "    if x.is_atomic:\n        return False\n    return (\n        x.right.is_functor and x.right.left == x.left", "    return (\n        x.right.is_functor and x.right.left == x.left", ['C14'])
V('ja-deep-functor-access', JA, "x.left.functor(uni['a'] | uni['c'], uni['d']), uni['e']\n        )", "x.left.left.left.functor(uni['a'] | uni['c'], uni['d']), uni['e']\n        )", ['C14', 'C04'])
V('en-sort-results-by-hash', EN, "    return results\n\n\ndef apply_unary_rules", "    return [r for r in {id(r): r for r in results}.values()] if False else list(set(results))\n\n\ndef apply_unary_rules", ['C14'])
V('cat-clear-mutates', CAT, "    def clear_features(self, *args) -> 'Atom':\n        if self.feature in args:\n            return Atom(self.base)", "    def clear_features(self, *args) -> 'Atom':\n        if self.feature in args:\n            object.__setattr__(self, 'feature', UnaryFeature())\n            return self", ['C14', 'C13'])
V('en-silent-gate-reordered', EN, "if seen_rules is None or seen_key in seen_rules:", "if (seen_rules is None) or (seen_key in seen_rules):", ['C14'], expect='silent')

# ---------------------------------------------------------------- printers (C18, C19)
JX = 'depccg/printer/jigg_xml.py'
PX = 'depccg/printer/xml.py'
PJ = 'depccg/printer/my_json.py'
PP = 'depccg/printer/prolog.py'
PI = 'depccg/printer/__init__.py'
PC = 'depccg/printer/conll.py'
V('jx-mutates-token', JX, "            token = dict(token)\n", "", ['C18'])
V('pj-json-in-place', PJ, "            res = dict(node.token)", "            res = node.token", ['C18'])
V('px-pops-tree-tokens', PX, "    tokens = list(enumerate(tree.tokens))\n    result = etree.Element(\"ccg\")\n    rec(tree, result)", "    result = etree.Element(\"ccg\")\n    rec(tree, result)\n    tree.children.reverse()", ['C18'])
V('pi-logprob-into-token', PI, "                tree_dict = json_of(tree)\n                tree_dict['log_prob'] = log_prob", "                tree_dict = json_of(tree)\n                tree.token['log_prob'] = log_prob if tree.is_leaf else None\n                tree_dict['log_prob'] = log_prob", ['C18'])
V('pc-conll-caches-on-tree', PC, "    dependencies = _resolve_dependencies(tree)\n    return rec(tree)", "    dependencies = _resolve_dependencies(tree)\n    tree.dependencies = dependencies\n    return rec(tree)", ['C18'])
V('pp-prolog-normalises-token', PP, "            token = node.token\n            result_str = (", "            token = node.token\n            token.setdefault('lemma', 'XX')\n            result_str = (", ['C18'])
V('ja-printer-sets-default', 'depccg/printer/ja.py', "            token = node.token\n", "            token = node.token\n            token['pos'] = token.get('pos', '*')\n", ['C18'])
V('tr-leaves-cached', TR, "        result = []\n        rec(self)\n        return result", "        result = []\n        rec(self)\n        self._leaves = result\n        return result", ['C18'])
V('jx-silent-copy-via-Token', JX, "            token = dict(token)\n", "            token = {k: v for k, v in token.items()}\n", ['C18'], expect='silent')
V('px-silent-local-pop', PX, "            start, token = tokens.pop(0)", "            start, token = tokens[0]\n            del tokens[0]", ['C18'], expect='silent')

# ---------------------------------------------------------------- C19
AP = 'depccg/argparse.py'
V('pp-ja-table-lacks-adv2', PP, "    \"ADV2\": 'adv2',\n", "", ['C19'])
V('pp-en-table-lacks-gbx', PP, "    'gbx': \"gbx(\",\n", "", ['C19'])
V('pp-en-index-by-symbol', PP, "output.write(_op_mapping[node.op_string])", "output.write(_op_mapping[node.op_symbol])", ['C19'])
V('pp-en-unary-through-table', PP, "        elif node.is_unary:\n            this_cat = _prolog_category_string(node.cat)\n            child_cat = _prolog_category_string(node.left_child.cat)\n            output.write(f\"lx({this_cat}, {child_cat},\\n\")",
  "        elif node.is_unary and node.op_string == 'lex':\n            this_cat = _prolog_category_string(node.cat)\n            child_cat = _prolog_category_string(node.left_child.cat)\n            output.write(f\"lx({this_cat}, {child_cat},\\n\")", ['C19'])
V('pp-token-attr', PP, "token.get('pos', 'XX')", "token.pos", ['C19'])
V('pp-ja-items-unguarded', PP, "                dict(node.feature.items())\n                if isinstance(node.feature, TernaryFeature) else {}\n", "                dict(node.feature.items())\n", ['C19'])
V('ap-new-format-choice', AP, "            'ccg2lambda', 'jigg_xml_ccg2lambda', 'json'\n        ],", "            'ccg2lambda', 'jigg_xml_ccg2lambda', 'json', 'auto_flattened'\n        ],", ['C19'])
V('pi-ptb-unregistered', PI, "    'ptb': ptb_of,\n", "", ['C19'])
V('ja-new-unary-label', JA, "        return 'ADV0'\n    return 'OTHER'", "        return 'ADV0'\n    return 'UNK'", ['C19'])
V('en-new-binary-label', EN, 'op_string="gbx",', 'op_string="gbc",', ['C19', 'C03'])
V('jx-value-unguarded', JX, "            if isinstance(x.feature, UnaryFeature):\n                if x.feature.value is None:", "            if True:\n                if x.feature.value is None:", ['C19'])
V('pauto-pos-subscript', 'depccg/printer/auto.py', "            pos = node.token.get('pos', 'POS')\n            return f'(<L {cat} {pos} {pos} {word} {cat}>)'", "            pos = node.token['pos']\n            return f'(<L {cat} {pos} {pos} {word} {cat}>)'", ['C19'])
V('pp-silent-guarded-subscript', PP, "token.get('pos', 'XX')", "(token['pos'] if 'pos' in token else 'XX')", ['C19'], expect='silent')

# ---------------------------------------------------------------- C08
PA = 'depccg/printer/auto.py'
UT = 'depccg/utils.py'
V('pa-leaf-extra-field', PA, "return f'(<L {cat} {pos} {pos} {word} {cat}>)'", "return f'(<L {cat} {pos} {word} {cat}>)'", ['C08'])
V('pa-leaf-word-pos-swapped', PA, "return f'(<L {cat} {pos} {pos} {word} {cat}>)'", "return f'(<L {cat} {word} {pos} {pos} {cat}>)'", ['C08'])
V('pa-head-polarity', PA, "            head_is_left = 0 if node.head_is_left else 1\n            return f'(<T {cat} {head_is_left} {num_children}> {children} )'", "            head_is_left = 1 if node.head_is_left else 0\n            return f'(<T {cat} {head_is_left} {num_children}> {children} )'", ['C08', 'C07'])
V('pa-no-escape', PA, "            cat = node.cat\n            word = denormalize(node.word)\n            pos = node.token.get('pos', 'POS')", "            cat = node.cat\n            word = node.word\n            pos = node.token.get('pos', 'POS')", ['C08'])
V('pa-children-newline', PA, "            children = ' '.join(rec(child) for child in node.children)\n            num_children = len(node.children)\n            head_is_left = 0 if node.head_is_left else 1\n            return f'(<T {cat} {head_is_left} {num_children}> {children} )'",
  "            children = ''.join(rec(child) for child in node.children)\n            num_children = len(node.children)\n            head_is_left = 0 if node.head_is_left else 1\n            return f'(<T {cat} {head_is_left} {num_children}> {children} )'", ['C08'])
V('rd-auto-head-reads-1', RD, "head_is_left = self.next() == '0'", "head_is_left = self.next() == '1'", ['C08'])
V('rd-auto-skips-field', RD, "        tag1 = self.next()  # modified POS tag\n        tag2 = self.next()  # original POS\n", "        tag1 = self.next()  # modified POS tag\n        tag2 = tag1\n", ['C08'])
V('rd-auto-cat-from-tag', RD, "        self.next()\n        cat = Category.parse(self.next())\n        tag1 = self.next()  # modified POS tag", "        self.next()\n        raw = self.next()\n        tag1 = self.next()  # modified POS tag\n        cat = Category.parse(tag1)", ['C08'])
V('rd-auto-unescapes', RD, "        self.tokens.append(token)\n        if word == '-LRB-':", "        token['word'] = normalize(word)\n        self.tokens.append(token)\n        if word == '-LRB-':", ['C08'])
V('rd-auto-no-closing', RD, "            children.append(self.next_node())\n        self.next()\n        if len(children) == 2:", "            children.append(self.next_node())\n        if len(children) == 2:", ['C08'])
V('pc-pos-default-differs', PC, "auto_pos = token.get('pos', 'POS')", "auto_pos = token.get('pos', '_')", ['C08'])
V('pc-fragment-head-polarity', PC, "            head_is_left = 0 if node.head_is_left else 1\n            stack.append", "            head_is_left = 1 if node.head_is_left else 0\n            stack.append", ['C08', 'C07'])
V('pc-no-closing', PC, "children = '\\n'.join(rec(child) for child in node.children) + ' )'", "children = '\\n'.join(rec(child) for child in node.children)", ['C08'])
V('ut-denorm-not-idempotent', UT, '        return "-LRB-"', '        return "<LRB>"', ['C08'])
V('ut-denorm-chain', UT, '    word = word.replace(">", "-RAB-")', '    word = word.replace(">", "-RAB>")', ['C08'])
V('pa-silent-local-names', PA, "            cat = node.cat\n            word = denormalize(node.word)\n            pos = node.token.get('pos', 'POS')\n            return f'(<L {cat} {pos} {pos} {word} {cat}>)'",
  "            c = node.cat\n            w = denormalize(node.word)\n            tag = node.token.get('pos', 'POS')\n            return f'(<L {c} {tag} {tag} {w} {c}>)'", ['C08'], expect='silent')

# ---------------------------------------------------------------- C20
JRD = 'depccg/tools/ja/reader.py'
PTBF = 'depccg/printer/ptb.py'
PJAF = 'depccg/printer/ja.py'
V('jr-symbol-keeps-brace', JRD, "op_string = self.next(' ')[1:]", "op_string = self.next(' ')", ['C20'])
V('jr-find-unguarded', JRD, "        if '_' in cat:\n            cat = cat[:cat.find('_')]", "        cat = cat[:cat.find('_')]", ['C20'])
V('jr-vocab-lacks-bx3', JRD, "'<B4', '>Bx1', '>Bx2', '>Bx3',", "'<B4', '>Bx1', '>Bx2',", ['C20'])
V('jr-vocab-lacks-adv1', JRD, "'ADNext', 'ADNint', 'ADV0', 'ADV1', 'ADV2'", "'ADNext', 'ADNint', 'ADV0', 'ADV2'", ['C20'])
V('jr-children-swapped', JRD, "return Tree.make_binary(cat, left, right, op_string, op_string)", "return Tree.make_binary(cat, right, left, op_string, op_string)", ['C20'])
V('jr-word-from-base', JRD, "return Tree.make_terminal(surf, cat)", "return Tree.make_terminal(pos1, cat)", ['C20'])
V('jr-unary-default-label', JRD, "return Tree.make_unary(cat, children[0], op_string, op_string)", "return Tree.make_unary(cat, children[0])", ['C20'])
V('pja-symbol-from-string', PJAF, "return f'{{{node.op_symbol} {node.cat} {children}}}'", "return f'{{{node.op_string} {node.cat} {children}}}'", ['C20'])
V('pja-leaf-three-fields', PJAF, "return f'{{{cat} {word}/{word}/{pos}/{inflection}}}'", "return f'{{{cat} {word}/{pos}/{inflection}}}'", ['C20'])
V('ptb-no-escape', PTBF, "word = node.word.replace('(', '-LRB-').replace(')', '-RRB-')", "word = node.word", ['C20'])
V('ptb-escape-half', PTBF, "word = node.word.replace('(', '-LRB-').replace(')', '-RRB-')", "word = node.word.replace('(', '-LRB-')", ['C20'])
V('ptb-escape-with-bracket', PTBF, "word = node.word.replace('(', '-LRB-').replace(')', '-RRB-')", "word = node.word.replace('(', '-(LRB-').replace(')', '-RRB-')", ['C20'])
V('rd-ptb-no-unescape', RD, "            item = item.replace('-LRB-', '(').replace('-RRB-', ')')\n", "", ['C20'])
V('rd-ptb-unescape-swapped', RD, "item = item.replace('-LRB-', '(').replace('-RRB-', ')')", "item = item.replace('-LRB-', ')').replace('-RRB-', '(')", ['C20'])
V('rd-ptb-no-completeness', RD, "        assert len(stack) == 1 and isinstance(stack[0], Tree)\n", "", ['C20'])
V('rd-ptb-root-prefix', RD, "assert tree_string.startswith('(ROOT ')\n    buf = list(reversed(tree_string[6:-1].split(' ')))", "assert tree_string.startswith('(ROOT ')\n    buf = list(reversed(tree_string[5:-1].split(' ')))", ['C20'])
V('ptb-root-renamed', PTBF, "return f'(ROOT {rec(tree)})'", "return f'(TOP {rec(tree)})'", ['C20'])
V('rd-ptb-unary-args', RD, "tree = Tree.make_unary(category, children[0])", "tree = Tree.make_unary(category, children[0], 'lex', '<un>', True)", ['C20'])
V('rd-ptb-children-order', RD, "                right, left = children\n", "                left, right = children\n", ['C20'])
V('jr-silent-contains-guard', JRD, "        if '_' in cat:\n            cat = cat[:cat.find('_')]", "        cut = cat.find('_')\n        if cut != -1:\n            cat = cat[:cut]", ['C20'], expect='silent')

# ---------------------------------------------------------------- C07
V('pc-heads-swapped', PC, "                if node.head_is_left:\n                    results[right_head] = left_head\n                    return left_head", "                if node.head_is_left:\n                    results[left_head] = right_head\n                    return left_head", ['C07'])
V('pc-returns-wrong-head', PC, "                else:\n                    results[left_head] = right_head\n                    return right_head", "                else:\n                    results[left_head] = right_head\n                    return left_head", ['C07'])
V('pc-right-first', PC, "                left_head = rec(node.left_child)\n                right_head = rec(node.right_child)", "                right_head = rec(node.right_child)\n                left_head = rec(node.left_child)", ['C07'])
V('pc-head-column-0-based', PC, "str(dependencies[counter - 1] + 1),", "str(dependencies[counter - 1]),", ['C07'])
V('pc-head-column-offset', PC, "str(dependencies[counter - 1] + 1),", "str(dependencies[counter] + 1),", ['C07'])
V('pc-no-root-assert', PC, "    assert len(\n        [dependency for dependency in results if dependency == -1]\n    ) == 1\n", "", ['C07'])
V('pa-flattened-polarity', PA, "            head_is_left = 0 if node.head_is_left else 1\n            return f'(<T *** {cat} * {head_is_left} {num_children}>\\n{children}\\n)'", "            head_is_left = 1 if node.head_is_left else 0\n            return f'(<T *** {cat} * {head_is_left} {num_children}>\\n{children}\\n)'", ['C07'])
V('pi-number-by-tree', PI, "        for sentence_index, trees in enumerate(nbest_trees, 1):\n            for tree, log_prob in trees:\n                print(header.format(sentence_index, log_prob), file=file)\n                print(formatter(tree), file=file)",
  "        for sentence_index, trees in enumerate(nbest_trees, 1):\n            for tree_index, (tree, log_prob) in enumerate(trees, 1):\n                print(header.format(tree_index, log_prob), file=file)\n                print(formatter(tree), file=file)", ['C07'])
V('pi-number-from-0', PI, "        for sentence_index, trees in enumerate(nbest_trees, 1):\n            for tree, log_prob in trees:\n                print(header.format(sentence_index, log_prob), file=file)\n                print(formatter(tree), file=file)",
  "        for sentence_index, trees in enumerate(nbest_trees):\n            for tree, log_prob in trees:\n                print(header.format(sentence_index, log_prob), file=file)\n                print(formatter(tree), file=file)", ['C07'])
V('px-sentence-attr-tree-index', PX, "out.set('sentence', str(sentence_index))", "out.set('sentence', str(tree_index))", ['C07'])
V('pp-prolog-first-tree-only', PP, "        for sentence_index, trees in enumerate(nbest_trees, 1):\n            for tree, _ in trees:\n                print(_prolog_string(tree, sentence_index), file=output)", "        for sentence_index, trees in enumerate(nbest_trees, 1):\n            tree, _ = trees[0]\n            print(_prolog_string(tree, sentence_index), file=output)", ['C07'])
V('ptb-left-child-only', PTBF, "children = ' '.join(rec(child) for child in node.children)", "children = rec(node.children[0])", ['C07', 'C20'])
V('pjson-skips-children', PJ, "'children': [rec(child) for child in node.children]", "'children': [rec(child) for child in node.children[:1]]", ['C07'])
V('jx-right-before-left', JX, "                childid, start_of_span = traverse(node.left_child)\n                if not node.is_unary:\n                    tmp, _ = traverse(node.right_child)\n                    childid += ' ' + tmp",
  "                if not node.is_unary:\n                    tmp, _ = traverse(node.right_child)\n                childid, start_of_span = traverse(node.left_child)\n                if not node.is_unary:\n                    childid += ' ' + tmp", ['C07'])
V('pderiv-cat-of-child', 'depccg/printer/deriv.py', "            result = str(node.cat)\n", "            result = str(node.children[0].cat)\n", ['C07'])
V('pi-silent-rename-index', PI, "        for sentence_index, trees in enumerate(nbest_trees, 1):\n            for tree, log_prob in trees:\n                print(header.format(sentence_index, log_prob), file=file)\n                print(formatter(tree), file=file)",
  "        for sid, nbest in enumerate(nbest_trees, 1):\n            for tree, log_prob in nbest:\n                print(header.format(sid, log_prob), file=file)\n                print(formatter(tree), file=file)", ['C07'], expect='silent')

# ---------------------------------------------------------------- C15
V('pi-ccg2lambda-no-symbol', PI, "            jigg_xml = to_jigg_xml(nbest_trees, use_symbol=lang == 'ja')\n            _, formulas_list", "            jigg_xml = to_jigg_xml(nbest_trees)\n            _, formulas_list", ['C15'])
V('pi-jiggccg2lambda-no-symbol', PI, "        jigg_xml = to_jigg_xml(nbest_trees, use_symbol=lang == 'ja')\n        result_xml_str", "        jigg_xml = to_jigg_xml(nbest_trees)\n        result_xml_str", ['C15'])
V('pi-jigg-symbol-for-en', PI, "                use_symbol=get_global_language() == 'ja',", "                use_symbol=get_global_language() == 'en',", ['C15'])
V('jx-rule-always-string', JX, "'rule', node.op_symbol if self.use_symbol else node.op_string", "'rule', node.op_string if self.use_symbol else node.op_string", ['C15'])
V('jx-terminal-template', JX, "xml_node.set('terminal', f's{self.sid}_{start_of_span}')", "xml_node.set('terminal', f't{self.sid}_{start_of_span}')", ['C15'])
V('jx-token-id-offset', JX, "token_node.set('id', f's{sentence_index}_{token_index}')", "token_node.set('id', f's{sentence_index}_{token_index + 1}')", ['C15'])
V('jx-id-counter-stuck', JX, "        self._spid += 1\n        return self._spid", "        return self._spid + 1", ['C15'])
V('jx-id-after-recursion', JX, "            id = f's{self.sid}_sp{self.spid}'\n            xml_node = etree.SubElement(res, 'span')\n            xml_node.set('category', _cat_multi_valued(node.cat))\n            xml_node.set('id', id)",
  "            xml_node = etree.SubElement(res, 'span')\n            xml_node.set('category', _cat_multi_valued(node.cat))\n            xml_node.set('id', f's{self.sid}_sp{self.spid}')\n            id = f's{self.sid}_sp{self.spid}'", ['C15'])
V('jx-converter-per-tree', JX, "        converter = _ConvertToJiggXML(sentence_index, use_symbol)\n        for tree, score in parsed:\n            sentence_node.append(converter.process(tree, score))", "        for tree, score in parsed:\n            converter = _ConvertToJiggXML(sentence_index, use_symbol)\n            sentence_node.append(converter.process(tree, score))", ['C15'])
V('jx-no-root-attr', JX, "        res.set('root', str(id))\n", "", ['C15'])
V('jx-child-attr-renamed', JX, "xml_node.set('child', childid)", "xml_node.set('children', childid)", ['C15'])
V('px-cat-attr-renamed', PX, "            rule_node.set('cat', str(node.cat))", "            rule_node.set('category', str(node.cat))", ['C15'])
V('px-leaf-tag-renamed', PX, "leaf_node = etree.SubElement(parent, 'lf')", "leaf_node = etree.SubElement(parent, 'leaf')", ['C15'])
V('rd-xml-reads-extra-key', RD, "                    chunk=attrib['chunk']\n", "                    chunk=attrib['chunk'],\n                    sense=attrib['sense']\n", ['C15'])
V('ja-symbol-renamed', JA, 'op_symbol=">Bx1"', 'op_symbol=">Bx"', ['C15', 'C04'])
V('pi-silent-local-lang', PI, "                use_symbol=get_global_language() == 'ja',", "                use_symbol='ja' == get_global_language(),", ['C15'], expect='silent')

# ---------------------------------------------------------------- C17
PR = 'depccg/parsing.py'
V('p-mask-zeros', PR, "    result = numpy.ones(length, dtype=numpy.bool)\n    result[indices] = 0", "    result = numpy.zeros(length, dtype=numpy.bool)\n    result[indices] = 1", ['C17'])
V('p-mask-negated-use', PR, "tag_scores[index, category_dict[token.word]\n                           ] = large_negative_value", "tag_scores[index, ~category_dict[token.word]\n                           ] = large_negative_value", ['C17'])
V('p-row-off-by-one', PR, "        for index, token in enumerate(tokens):\n            if token.word in category_dict:", "        for index, token in enumerate(tokens, 1):\n            if token.word in category_dict:", ['C17'])
V('p-ids-from-1', PR, "        cat: index for index, cat in enumerate(categories)\n", "        cat: index for index, cat in enumerate(categories, 1)\n", ['C17'])
V('p-writes-dep', PR, "    for tokens, (tag_scores, _) in zip(doc, score_results):\n        for index, token in enumerate(tokens):", "    for tokens, (_, tag_scores) in zip(doc, score_results):\n        for index, token in enumerate(tokens):", ['C17'])
V('p-wrong-value', PR, "                           ] = large_negative_value", "                           ] = -large_negative_value", ['C17'])
V('p-no-word-guard', PR, "            if token.word in category_dict:\n                tag_scores", "            if True:\n                tag_scores", ['C17'])
V('p-lowercases-token', PR, "            if token.word in category_dict:\n                tag_scores", "            token['word'] = token.word.lower()\n            if token.word in category_dict:\n                tag_scores", ['C17'])
V('p-no-typecheck-filters', PR, "    doc, score_results = _type_check(doc, score_results, categories)\n\n    category_ids = {", "    category_ids = {", ['C17', 'C11'])
V('d-bad-target', 'depccg/models/targets.en.jsonnet', "    'N/S[for]',", "    'N/S[for',", ['C17'])
V('d-dup-target', 'depccg/models/targets.ja.jsonnet', "{\n  targets: [\n", "{\n  targets: [\n    'S[mod=nm,form=base,fin=t]',\n    '(S[mod=nm,form=base,fin=t])',\n", ['C17'])
V('d-dict-cat-not-in-targets', 'depccg/models/targets.en.jsonnet', "    'S[poss]/S[dcl]',\n", "", ['C17'])
V('d-ambiguous-slashes', 'depccg/models/unary_rules.en.jsonnet', "unary_rules: [\n", "unary_rules: [\n    ['NP', 'S/S/NP'],\n", ['C17'])
V('d-silent-blanks', 'depccg/models/targets.en_rebank.jsonnet', "    ',',\n", "    ' , ',\n", ['C17'], expect='silent')

# ---------------------------------------------------------------- C11
V('p-chunks-gap', PR, "        yield list_[i:i + splits]", "        yield list_[i:i + splits - 1]", ['C11'])
V('p-chunks-step-mismatch', PR, "    for i in range(0, len(list_), splits):", "    for i in range(0, len(list_), splits + 1):", ['C11'])
V('p-chunks-floor', PR, "splits = math.ceil(len(list_) / max(num_chunks, 1))", "splits = len(list_) // max(num_chunks, 1)", ['C11'])
V('p-gather-reversed', PR, "                for task in tasks\n", "                for task in reversed(tasks)\n", ['C11'])
V('p-gather-ready-first', PR, "                for task in tasks\n", "                for task in sorted(tasks, key=lambda t: not t.ready())\n", ['C11'])
V('p-tasks-prepend', PR, "                tasks.append(task)", "                tasks.insert(0, task)", ['C11'])
V('p-chunk-scores-shared', PR, "                    args=(list(doc_), list(score_results_)) + args,", "                    args=(list(doc_), score_results) + args,", ['C11'])
V('p-no-typecheck-run', PR, "    doc, score_results = _type_check(doc, score_results, categories)\n\n    args = (", "    args = (", ['C11'])
V('p-typecheck-warns-only', PR, "            raise RuntimeError(\n                (\"all inputs to depccg.parsing.run must contain scores for\"\n                 \" the equal number of categories as the `categories` list.\")\n            )", "            print(\"all inputs to depccg.parsing.run must contain scores for\"\n                  \" the equal number of categories as the `categories` list.\")", ['C11'])
V('p-dep-shape-square', PR, "expected_dep_score = (num_tokens, num_tokens + 1)", "expected_dep_score = (num_tokens, num_tokens)", ['C11'])
V('x-results-carry-over', PYX, "    all_results = []\n    iter_ = tqdm(", "    all_results = []\n    results = []\n    scores = []\n    iter_ = tqdm(", ['C11'], expect='silent')
V('x-category-table-reset', PYX, "        if status > 0:\n            all_results.append(failed())\n            continue\n", "        if status > 0:\n            all_results.append(failed())\n            categories_.clear()\n            continue\n", ['C11', 'C02'])
V('h-cache-overwrite', H, "    auto apply_unary_rules = [&](unsigned x)\n    {\n        std::pair<unsigned, unsigned> key(x, UINT_MAX);\n        if (cache->count(key) == 0)\n        {", "    auto apply_unary_rules = [&](unsigned x)\n    {\n        std::pair<unsigned, unsigned> key(x, UINT_MAX);\n        cache->erase(key);\n        if (cache->count(key) == 0)\n        {", ['C11'])
V('h-cache-key-collides', H, "std::pair<unsigned, unsigned> key(x, y);", "std::pair<unsigned, unsigned> key(y, x);", ['C11', 'C02', 'C12'])
V('x-shared-failed-list', PYX, "    def failed():\n        return [", "    _FAILED = []\n\n    def failed():\n        return _FAILED or [", ['C11'])

# ---------------------------------------------------------------- C05
V('c5-split-no-pipe', CAT, "cat_split = re.compile(r'([\\[\\]\\(\\)/\\\\|<>])')", "cat_split = re.compile(r'([\\[\\]\\(\\)/\\\\<>])')", ['C05'])
V('c5-split-no-capture', CAT, "cat_split = re.compile(r'([\\[\\]\\(\\)/\\\\|<>])')", "cat_split = re.compile(r'[\\[\\]\\(\\)/\\\\|<>]')", ['C05'])
V('c5-atom-braces', CAT, "        return f'{self.base}[{feature}]'", "        return f'{self.base}{{{feature}}}'", ['C05'])
V('c5-functor-no-brackets', CAT, "            if isinstance(cat, Functor):\n                return f'({cat})'\n            return str(cat)", "            return str(cat)", ['C05'])
V('c5-functor-always-brackets', CAT, "            if isinstance(cat, Functor):\n                return f'({cat})'\n            return str(cat)", "            return f'({cat})'", ['C05'], expect='silent')
V('c5-ternary-semicolon', CAT, "        return ','.join(f'{k}={v}' for k, v in self.items())", "        return ';'.join(f'{k}={v}' for k, v in self.items())", ['C05'])
V('c5-ternary-colon', CAT, "        return ','.join(f'{k}={v}' for k, v in self.items())", "        return ','.join(f'{k}:{v}' for k, v in self.items())", ['C05'])
V('c5-parse-feature-or', CAT, "        if '=' in text and ',' in text:", "        if '=' in text:", ['C05'])
V('c5-left-assoc-guess', CAT, "        if len(stack) == 1:\n            return stack[0]\n        try:\n            x, f, y = stack\n            return Functor(x, f, y)", "        while len(stack) > 3:\n            x, f, y = stack[:3]\n            stack[:3] = [Functor(x, f, y)]\n        if len(stack) == 1:\n            return stack[0]\n        try:\n            x, f, y = stack\n            return Functor(x, f, y)", ['C05'])
V('c5-bracket-unchecked', CAT, "                    f = stack.pop()\n                    x = stack.pop()\n                    assert stack.pop() in \"(<\"\n", "                    f = stack.pop()\n                    x = stack.pop()\n                    stack.pop()\n", ['C05'])
V('c5-end-star-unpack', CAT, "            x, f, y = stack\n            return Functor(x, f, y)", "            x, f, *y = stack\n            return Functor(x, f, y[-1])", ['C05'])
V('c5-items-reordered', CAT, "        return (self.kv1, self.kv2, self.kv3)", "        return (self.kv1, self.kv3, self.kv2)", ['C05'])
V('c5-silent-rename', CAT, "                    f = stack.pop()\n                    x = stack.pop()\n                    assert stack.pop() in \"(<\"\n                    stack.append(Functor(x, f, y))", "                    slash = stack.pop()\n                    left = stack.pop()\n                    assert stack.pop() in \"(<\"\n                    stack.append(Functor(left, slash, y))", ['C05'], expect='silent')

# ---------------------------------------------------------------- more parsing.h
V('h-argmax-from-min', H, "T max_val = std::numeric_limits<T>::lowest();", "T max_val = std::numeric_limits<T>::min();", ['C01'])
V('h-argmax-inverted', H, "if (max_val <= *from)", "if (max_val >= *from)", ['C01'])
V('h-argmax-skips-last', H, "        while (from != to)\n        {\n            if (max_val <= *from)", "        while (from + 1 != to)\n        {\n            if (max_val <= *from)", ['C01'])
# (swapping the pair's components does not compile: not a variant)
V('h-silent-argmax-strict', H, "if (max_val <= *from)", "if (max_val < *from)", ['C01'], expect='silent')

# ---------------------------------------------------------------- renamed private helpers must stay silent
V2('u-silent-rename-helpers', [(U, 'scan_deep', '_leaves', 4), (U, 'scan(', '_structure(', 5)], ['C06', 'C03', 'C04', 'C14'], expect='silent')
V('x-silent-rename-failed', PYX, 'failed()', 'placeholder()', ['C02', 'C09', 'C10', 'C11', 'C19'], expect='silent', count=3)


# ---------------------------------------------------------------- round 4 (rules added for the fourth batch of seeded changes)
EN = 'depccg/grammar/en.py'
V('en-conj-demorgan', EN, "        not _is_punct(y)\n        and not _is_type_raised(y)\n        and x in (\",\", \";\", \"conj\")",
  "        not (_is_punct(y) and _is_type_raised(y))\n        and x in (\",\", \";\", \"conj\")", ['C03'])
V('en-conj-silent-reordered', EN, "        not _is_punct(y)\n        and not _is_type_raised(y)\n        and x in (\",\", \";\", \"conj\")",
  "        x in (\",\", \";\", \"conj\")\n        and not (_is_punct(y) or _is_type_raised(y))", ['C03', 'C14'], expect='silent')
V('en-rp-extra-conjunct', EN, "def remove_punctuation2(x: Category, y: Category) -> Optional[CombinatorResult]:\n    if _is_punct(y):",
  "def remove_punctuation2(x: Category, y: Category) -> Optional[CombinatorResult]:\n    if _is_punct(y) and not _is_punct(x):", ['C03'])
V('en-lqu-list-short', EN, 'if x in ("LQU", "LRB"):', 'if x in ("LQU",):', ['C03'])
V('prolog-escape-order', 'depccg/printer/prolog.py', 'return text.replace("\'", "\\\\\'")', 'return text.replace("\'", "\\\\\'").replace("\\\\", "\\\\\\\\")', ['C07'])
V('prolog-escape-silent-backslash-first', 'depccg/printer/prolog.py', 'return text.replace("\'", "\\\\\'")', 'return text.replace("\\\\", "\\\\\\\\").replace("\'", "\\\\\'")', ['C07'], expect='silent')
V('prolog-ja-comma-skips-first', 'depccg/printer/prolog.py', 'if i < len(node.children):', 'if i > 0:', ['C07'])
V('html-feature-group-narrow', 'depccg/printer/html.py', "r'([\\w\\\\/()]+)(\\[.+?\\])*'", "r'([\\w\\\\/()]+)(\\[\\w+\\])*'", ['C07'])
V('reader-nfc-line', 'depccg/tools/reader.py', "    for line in open(filename):\n        line = line.strip()\n        if len(line) == 0:\n            continue\n        if line.startswith(\"ID\"):",
  "    for line in open(filename):\n        line = line.strip().lower()\n        if len(line) == 0:\n            continue\n        if line.startswith(\"ID\"):", ['C08'])
V('reader-ext-rsplit-silent', 'depccg/tools/reader.py', "    if filename.endswith('.jigg.xml'):", "    if filename.endswith(('.jigg.xml',)):", ['C15'], expect='silent')
V('reader-ext-order-swapped', 'depccg/tools/reader.py', "    if filename.endswith('.jigg.xml'):\n        logger.info('read it as jigg XML file')\n        yield from read_jigg_xml(filename)\n\n    elif filename.endswith('.xml'):\n        logger.info('read it as C&C XML file')\n        yield from read_xml(filename)",
  "    if filename.endswith('.xml'):\n        logger.info('read it as C&C XML file')\n        yield from read_xml(filename)\n\n    elif filename.endswith('.jigg.xml'):\n        logger.info('read it as jigg XML file')\n        yield from read_jigg_xml(filename)", ['C15'])
V('ccg2lambda-no-copy', 'depccg/semantics/ccg2lambda/ccg2lambda_tools.py', "tokens = copy.deepcopy(ccg_xml.find('.//tokens'))", "tokens = ccg_xml.find('.//tokens')", ['C15'])
V('h-keep-test-ge', H, 'if (std::exp(score_and_cat.first) > threshold)', 'if (std::exp(score_and_cat.first) >= threshold)', ['C16', 'C01', 'C10'])
V('h-search-break-low', H, '        parsing::cell_item top_item = agenda.top();\n        agenda.pop();',
  '        parsing::cell_item top_item = agenda.top();\n        agenda.pop();\n        if (top_item.score() < -1e+30f)\n            break;', ['C16', 'C01'])
V('py-typecheck-copies', 'depccg/parsing.py', '    return doc, score_results\n\n\ndef apply_category_filters(',
  '    return doc, [ScoringResult(numpy.ascontiguousarray(t), numpy.ascontiguousarray(d)) for t, d in score_results]\n\n\ndef apply_category_filters(', ['C17'])
V('ja-reader-rfind', 'depccg/tools/ja/reader.py', "cat = cat[:cat.find('_')]", "cat = cat[:cat.rfind('_')]", ['C20'])


# ---------------------------------------------------------------- round 5 (rules added for the fifth batch of seeded changes)
XMLP = 'depccg/printer/xml.py'
JIGG = 'depccg/printer/jigg_xml.py'
V('xml-token-fields-through-strip', XMLP, "            for k, v in token.items():\n                leaf_node.set(k, v)",
  "            for k, v in token.items():\n                leaf_node.set(k, v.strip())", ['C15'])
V('xml-token-fields-silent-renamed', XMLP, "            for k, v in token.items():\n                leaf_node.set(k, v)",
  "            for name, value in token.items():\n                leaf_node.set(name, value)", ['C15', 'C07', 'C18', 'C19'], expect='silent')
V('jigg-token-fields-lower', JIGG, "            for k, v in token.items():\n                token_node.set(k, v)",
  "            for k, v in token.items():\n                token_node.set(k, v.lower())", ['C15'])
V('xml-start-by-search', XMLP, "            start, token = tokens.pop(0)\n            leaf_node.set('start', str(start))",
  "            start, token = tokens.pop(0)\n            leaf_node.set('start', str(tree.tokens.index(token)))", ['C07'])
V('auto-ext-entity-chunk-swapped', 'depccg/printer/auto.py', "{lemma} {pos} {entity} {chunk} {cat}>)'", "{lemma} {pos} {chunk} {entity} {cat}>)'", ['C07'])
V('auto-ext-silent-join', 'depccg/printer/auto.py', "            return f'(<L {cat} {word} {lemma} {pos} {entity} {chunk} {cat}>)'",
  "            fields = ' '.join([lemma, pos, entity, chunk])\n            return f'(<L {cat} {word} {fields} {cat}>)'", ['C07', 'C08', 'C19'], expect='silent')
V('ja-writer-unary-symbol-const', 'depccg/printer/ja.py', "            return f'{{{node.op_symbol} {node.cat} {children}}}'",
  "            if len(node.children) == 1:\n                return f'{{ADV0 {node.cat} {children}}}'\n            return f'{{{node.op_symbol} {node.cat} {children}}}'", ['C20'])
V('guess-fallback-reads-left', 'depccg/grammar/__init__.py', "        head_is_left=True", "        head_is_left=(x.left == y)", ['C20', 'C12', 'C15'])
V('h-cache-cleared-when-large', H, "        if (cache->count(key) == 0)\n        {\n            std::vector<combinator_result> results;\n            if (scaffold(binary_callback",
  "        if (cache->size() > 100000)\n            cache->clear();\n        if (cache->count(key) == 0)\n        {\n            std::vector<combinator_result> results;\n            if (scaffold(binary_callback", ['C11', 'C12'])
V('h-rule-id-bitfield', H, "        unsigned rule_id;\n", "        unsigned rule_id : 8;\n", ['C12'])
V('py-second-pass-no-beta', 'depccg/parsing.py', "            *args,\n            **kwargs,\n        )\n\n    else:",
  "            *args,\n            **kwargs,\n        )\n        if not results:\n            results = depccg._parsing.run(doc, score_results, *args, **{**kwargs, 'use_beta': False})\n\n    else:", ['C16'])
V('py-filters-skip-long', 'depccg/parsing.py', "        for index, token in enumerate(tokens):\n            if token.word in category_dict:",
  "        if len(tokens) > 250:\n            continue\n        for index, token in enumerate(tokens):\n            if token.word in category_dict:", ['C17'])
V('reader-auto-skips-failed', 'depccg/tools/reader.py', "            tree, tokens = _AutoLineReader(line).parse()\n            yield ReaderResult(name, tokens, tree)",
  "            tree, tokens = _AutoLineReader(line).parse()\n            if len(tokens) == 1 and tokens[0].word == 'FAILED':\n                continue\n            yield ReaderResult(name, tokens, tree)", ['C08'])
V('printer-sets-language', 'depccg/printer/__init__.py', "from depccg.lang import get_global_language", "from depccg.lang import get_global_language, set_global_language_to", ['C18'], expect='silent')
V2('printer-calls-language-setter', [('depccg/printer/__init__.py', "from depccg.lang import get_global_language", "from depccg.lang import get_global_language, set_global_language_to", 1),
                                     ('depccg/printer/__init__.py', "    if format == 'conll':\n        header =", "    if format == 'ja':\n        set_global_language_to('ja')\n    if format == 'conll':\n        header =", 1)], ['C18'])
V('auto-cache-on-node', 'depccg/printer/auto.py', "    def rec(node):\n        if node.is_leaf:\n            cat = node.cat\n            word = denormalize(node.word)\n            pos = node.token.get('pos', 'POS')",
  "    def rec(node):\n        if 'auto' in vars(node):\n            return vars(node)['auto']\n        vars(node)['seen'] = True\n        if node.is_leaf:\n            cat = node.cat\n            word = denormalize(node.word)\n            pos = node.token.get('pos', 'POS')", ['C18'])
V('to-string-lang-unbound', 'depccg/printer/__init__.py', "                use_symbol=get_global_language() == 'ja',", "                use_symbol=lang == 'ja',", ['C19'])
V('cat-parse-strips-conj', CAT, "        tokens = cat_split.sub(r' \\1 ', text)", "        if text.endswith('[conj]'):\n            text = text[:-6]\n        tokens = cat_split.sub(r' \\1 ', text)", ['C05'])
V('cat-parse-silent-strip', CAT, "        tokens = cat_split.sub(r' \\1 ', text)", "        tokens = cat_split.sub(r' \\1 ', text.strip())", ['C05', 'C13', 'C17'], expect='silent')
V('uni-getitem-base-lost', U, "                    return Atom(x.base, self.mapping[x.feature])", "                    return Atom('X', self.mapping[x.feature])", ['C03', 'C04', 'C06'])
V('uni-getitem-silent-get', U, "                if x.feature in self.mapping:\n                    return Atom(x.base, self.mapping[x.feature])\n                else:\n                    return x",
  "                return Atom(x.base, self.mapping.get(x.feature, x.feature))", ['C03', 'C04', 'C06'], expect='silent')
V('uni-loop-skips-bound', U, "            if x_feature.unifies(y_feature):", "            if x_feature in self.mapping:\n                continue\n            if x_feature.unifies(y_feature):", ['C03', 'C04', 'C06'])

# ---------------------------------------------------------------- rounds 6 and 7 of seeded changes: the rules added there
V('cat-feature-lowercased', CAT, "        return UnaryFeature(text)", "        if text != 'X':\n            text = text.lower()\n        return UnaryFeature(text)", ['C05'])
V('jigg-root-by-coverage', 'depccg/printer/jigg_xml.py', "        res[0].set('root', 'true')\n", "        for span_ in res:\n            if span_.get('begin') == '0' and span_.get('end') == str(len(tree)):\n                span_.set('root', 'true')\n", ['C15'])
V('jigg-root-silent-rename', 'depccg/printer/jigg_xml.py', "        id, _ = traverse(tree)\n        res.set('root', str(id))\n        res[0].set('root', 'true')", "        root_id, _ = traverse(tree)\n        res.set('root', str(root_id))\n        res[0].set('root', 'true')", ['C15', 'C07'], expect='silent')
V('jigg-reader-cat-from-token', 'depccg/tools/reader.py', "            else:\n                cat = Category.parse(attrib['category'])\n                word = try_get_surface(tokens[attrib['terminal']])",
  "            else:\n                cat = Category.parse(tokens[attrib['terminal']].get('cat', attrib['category']))\n                word = try_get_surface(tokens[attrib['terminal']])", ['C15'])
V('h-fill-skips-tags', H, "        for (unsigned category_id = 0; category_id < config->num_tags; category_id++)\n            scored_cats[token_id].emplace(tag_in_scores(token_id, category_id), category_id);",
  "        for (unsigned category_id = 0; category_id < config->num_tags; category_id++)\n        {\n            if (length == 1 && possible_root_cats.count(category_id) == 0)\n                continue;\n            scored_cats[token_id].emplace(tag_in_scores(token_id, category_id), category_id);\n        }", ['C16', 'C01'])
V('h-budget-preincrement', H, "    for (unsigned s = 0; s < config->max_step && goal.size() < config->nbest && agenda.size(); s++)\n    {",
  "    unsigned s = 0;\n    while (goal.size() < config->nbest && agenda.size())\n    {\n        if (++s >= config->max_step)\n            break;", ['C01', 'C11'])
V('h-budget-silent-postincrement', H, "    for (unsigned s = 0; s < config->max_step && goal.size() < config->nbest && agenda.size(); s++)\n    {",
  "    unsigned s = 0;\n    while (goal.size() < config->nbest && agenda.size())\n    {\n        if (s++ >= config->max_step)\n            break;", ['C01', 'C02', 'C11'], expect='silent')
V('pyx-one-word-shortcut', 'depccg/parsing.pyx', "        results = []\n        scores = []\n        finalizer_args = {",
  "        if length == 1:\n            all_results.append([ScoredTree(tree=Tree.make_terminal(tokens[0], categories_[0]), score=0.0)])\n            continue\n\n        results = []\n        scores = []\n        finalizer_args = {", ['C02', 'C11'])
V('pyx-max-length-named', 'depccg/parsing.pyx', "    process_id=0,\n    **kwargs\n", "    process_id=0,\n    max_length=250,\n    **kwargs\n", ['C11', 'C01'])
V('py-pruning-widened', 'depccg/parsing.py', "        'pruning_size': pruning_size,", "        'pruning_size': max(pruning_size, nbest),", ['C02', 'C16', 'C01'])
V('printer-format-on-body', 'depccg/printer/__init__.py', "                print(header.format(sentence_index, log_prob), file=file)\n                print(formatter(tree), file=file)",
  "                print('\\n'.join((header, formatter(tree))).format(sentence_index, log_prob), file=file)", ['C08', 'C07', 'C19'])
V('printer-silent-joined-header', 'depccg/printer/__init__.py', "                print(header.format(sentence_index, log_prob), file=file)\n                print(formatter(tree), file=file)",
  "                print(header.format(sentence_index, log_prob) + '\\n' + formatter(tree), file=file)", ['C08', 'C18'], expect='silent')
V('lang-thread-local', 'depccg/lang.py', "GLOBAL_LANG_NAME = 'en'\n", "import threading\nGLOBAL_LANG_NAME = 'en'\n_config = threading.local()\n", ['C12'], expect='silent')
V2('lang-thread-local-used', [('depccg/lang.py', "GLOBAL_LANG_NAME = 'en'\n", "import threading\nGLOBAL_LANG_NAME = 'en'\n_config = threading.local()\n", 1),
                              ('depccg/lang.py', "    global GLOBAL_LANG_NAME\n", "", 1),
                              ('depccg/lang.py', "    GLOBAL_LANG_NAME = lang\n", "    _config.lang = lang\n", 1),
                              ('depccg/lang.py', "    return GLOBAL_LANG_NAME\n", "    return getattr(_config, 'lang', GLOBAL_LANG_NAME)\n", 1)], ['C12'])
V('tree-reduce-drops-head', 'depccg/tree.py', "    @staticmethod\n    def make_terminal(", "    def __reduce__(self):\n        return (Tree, (self.cat, self.children, self.op_string, self.op_symbol))\n\n    @staticmethod\n    def make_terminal(", ['C12', 'C11'])
V('tree-reduce-silent-complete', 'depccg/tree.py', "    @staticmethod\n    def make_terminal(", "    def __reduce__(self):\n        return (Tree, (self.cat, self.children, self.op_string, self.op_symbol, self.head_is_left))\n\n    @staticmethod\n    def make_terminal(", ['C12', 'C11'], expect='silent')
V('json-token-not-copied', 'depccg/printer/my_json.py', "            res = dict(node.token)", "            res = node.token", ['C19', 'C18'])
V('en-type-raised-opposite-slashes', 'depccg/grammar/en.py', "        x.right.is_functor and x.right.left == x.left", "        x.right.is_functor and x.right.slash != x.slash and x.right.left == x.left", ['C03'])
V('cat-conj-dropped', CAT, "                    assert buffer.pop() == ']'\n", "                    assert buffer.pop() == ']'\n                    if feature == 'conj':\n                        feature = UnaryFeature()\n", ['C05', 'C08'])
V('cat-open-bracket-case-lost', CAT, "            elif item in '(<':", "            elif item in '<':", ['C05'])
V('reader-dispatch-any-suffix', 'depccg/tools/reader.py', "    elif filename.endswith('.ptb'):", "    elif '.ptb' in filename:", ['C08', 'C20'])
V('reader-ptb-holds-lines', 'depccg/tools/reader.py', "        else:\n            tree, tokens = _parse_ptb(line)\n            name = name0 or f'ID={i}'\n            yield ReaderResult(name, tokens, tree)",
  "        elif line.count('(') != line.count(')'):\n            continue\n        else:\n            tree, tokens = _parse_ptb(line)\n            name = name0 or f'ID={i}'\n            yield ReaderResult(name, tokens, tree)", ['C20'])
V('prolog-skips-placeholder', 'depccg/printer/prolog.py', "            for tree, _ in trees:\n                print(_prolog_string(tree, sentence_index), file=output)",
  "            for tree, score_ in trees:\n                if score_ == float('-inf'):\n                    continue\n                print(_prolog_string(tree, sentence_index), file=output)", ['C07'])
V('ccg2lambda-element-truth', 'depccg/semantics/ccg2lambda/ccg2lambda_tools.py', "    ccg_tree = build_ccg_tree(ccg_flat_tree)\n", "    ccg_tree = build_ccg_tree(ccg_flat_tree)\n    if not ccg_tree:\n        raise ValueError('no tree')\n", ['C15'])
V('ccg2lambda-silent-is-none', 'depccg/semantics/ccg2lambda/ccg2lambda_tools.py', "    ccg_tree = build_ccg_tree(ccg_flat_tree)\n", "    ccg_tree = build_ccg_tree(ccg_flat_tree)\n    if ccg_tree is None:\n        raise ValueError('no tree')\n", ['C15'], expect='silent')
V('html-timestamp', 'depccg/printer/html.py', "    return _MATHML_MAIN.format(result)", "    import time\n    result += '<p>%s</p>' % time.time()\n    return _MATHML_MAIN.format(result)", ['C18'])
V('to-string-set-of-trees', 'depccg/printer/__init__.py', "    if format in ('jigg_xml_ccg2lambda', 'ccg2lambda'):\n        lang = get_global_language()",
  "    nbest_trees = [sorted(set(trees), key=lambda t: t.score, reverse=True) for trees in nbest_trees]\n    if format in ('jigg_xml_ccg2lambda', 'ccg2lambda'):\n        lang = get_global_language()", ['C18'])
V('argparse-beta-twice', 'depccg/argparse.py', "    parser.set_defaults(func=lambda _: parser.print_help())\n    subparsers = parser.add_subparsers()", "    parser.set_defaults(func=lambda _: parser.print_help())\n    parser.add_argument('--beta', default=0.00001, type=float)\n    subparsers = parser.add_subparsers()", ['C16'])
V('ja-unary-table-three-args', 'depccg/models/unary_rules.ja.jsonnet', "    ['S[mod=adn,form=imp,fin=f]',", "    ['((S[mod=adv,form=cont,fin=f]\\\\NP[case=ga,mod=nm,fin=f])\\\\NP[case=ni,mod=nm,fin=f])\\\\NP[case=o,mod=nm,fin=f]', 'S[mod=X1,form=X2,fin=X3]/S[mod=X1,form=X2,fin=X3]'],\n    ['S[mod=adn,form=imp,fin=f]',", ['C04'])
# ---------------------------------------------------------------- round 8
_AGENDA_DROP = ("    class agenda : public std::priority_queue<cell_item>\n    {\n    public:\n        void push(const cell_item &item)\n        {\n"
                "            if (std::isfinite(item.score()))\n                std::priority_queue<cell_item>::push(item);\n        }\n    };\n\n    class chart\n    {")
_AGENDA_FWD = ("    class agenda : public std::priority_queue<cell_item>\n    {\n    public:\n        void push(const cell_item &item)\n        {\n"
               "            std::priority_queue<cell_item>::push(item);\n        }\n    };\n\n    class chart\n    {")
V2('h-agenda-class-drops-items', [(H, "    class chart\n    {", _AGENDA_DROP, 1), (H, "    std::priority_queue<parsing::cell_item> agenda;", "    parsing::agenda agenda;", 1)], ['C01'])
V2('h-agenda-class-forwards', [(H, "    class chart\n    {", _AGENDA_FWD, 1), (H, "    std::priority_queue<parsing::cell_item> agenda;", "    parsing::agenda agenda;", 1)],
   ['C01', 'C02', 'C09', 'C10', 'C11', 'C12', 'C16', 'C19'], expect='silent')
V('x-score-buffers-any-layout', PYX, "    cdef np.ndarray[float, ndim=2, mode='c'] tag_scores\n    cdef np.ndarray[float, ndim=2, mode='c'] dep_scores",
  "    cdef np.ndarray[float, ndim=2] tag_scores\n    cdef np.ndarray[float, ndim=2] dep_scores", ['C01', 'C16'])
_KW_OLD = ("    kwargs = dict(\n        unary_penalty=args.unary_penalty,\n        nbest=args.nbest,\n        pruning_size=args.pruning_size,\n        beta=args.beta,\n"
           "        use_beta=not args.disable_beta,\n        max_length=args.max_length,\n        max_step=args.max_step,\n        processes=args.num_processes,\n    )\n")
V('main-options-by-name', 'depccg/__main__.py', _KW_OLD,
  "    import inspect\n    run_arguments = inspect.signature(depccg.parsing.run).parameters\n    kwargs = {\n        name: value\n        for name, value in vars(args).items()\n        if name in run_arguments\n    }\n    kwargs['processes'] = args.num_processes\n", ['C16', 'C01'])
V('main-options-by-name-plus-switch', 'depccg/__main__.py', _KW_OLD,
  "    import inspect\n    run_arguments = inspect.signature(depccg.parsing.run).parameters\n    kwargs = {\n        name: value\n        for name, value in vars(args).items()\n        if name in run_arguments\n    }\n    kwargs['processes'] = args.num_processes\n    kwargs['use_beta'] = not args.disable_beta\n", ['C16', 'C01', 'C02', 'C09'], expect='silent')
V('en-result-as-text', 'depccg/grammar/en.py', '        result = Category.parse("(S\\\\NP)\\\\(S\\\\NP)")', '        result = "(S\\\\NP)\\\\(S\\\\NP)"', ['C13'])
V2('en-conj-atomic-result', [('depccg/grammar/en.py', "def remove_punctuation1(", "def conjunction3(x: Category, y: Category) -> Optional[CombinatorResult]:\n    if y == \"conj\" and x != \"conj\" and not _is_punct(x):\n        result = x\n        return CombinatorResult(\n            cat=result,\n            op_string=\"conj\",\n            op_symbol=\"<Φ>\",\n            head_is_left=True,\n        )\n    return None\n\n\ndef remove_punctuation1(", 1),
                              ('depccg/grammar/en.py', "    conjunction2,\n", "    conjunction2,\n    conjunction3,\n", 1)], ['C19'])
V2('grammar-head-from-setting', [('depccg/grammar/ja.py', "from depccg.types import Combinator, CombinatorResult\n", "from depccg.types import Combinator, CombinatorResult\nfrom depccg.lang import get_global_language\n", 1),
                                 ('depccg/grammar/ja.py', "            op_string=\"fa\",\n            op_symbol=\">\",\n            head_is_left=False,", "            op_string=\"fa\",\n            op_symbol=\">\",\n            head_is_left=get_global_language() == 'en',", 1)], ['C14'])
V('tree-word-normalised', 'depccg/tree.py', "        return ' '.join(token[token_key] for token in self.tokens)", "        return ' '.join(token[token_key].replace('-LRB-', '(').replace('-RRB-', ')') for token in self.tokens)", ['C07'])
V('ja-unary-generator', 'depccg/grammar/ja.py', "    results = []\n    for result in unary_rules[x]:\n        op_string = _unary_rule_symbol(x)\n        results.append(\n            CombinatorResult(\n                cat=result,\n                op_string=op_string,\n                op_symbol=op_string,\n                head_is_left=True,\n            )\n        )\n    return results",
  "    op_string = _unary_rule_symbol(x)\n    return (\n        CombinatorResult(\n            cat=result,\n            op_string=op_string,\n            op_symbol=op_string,\n            head_is_left=True,\n        )\n        for result in unary_rules[x]\n    )", ['C14'])
# ---------------------------------------------------------------- rounds 9 and 10
RD_ = 'depccg/tools/reader.py'
V('xml-setdefault-on-result-tokens', 'depccg/printer/xml.py', "            for k, v in token.items():\n                leaf_node.set(k, v)",
  "            for k in ('lemma', 'pos', 'chunk', 'entity'):\n                token.setdefault(k, 'XX')\n            for k, v in token.items():\n                leaf_node.set(k, v)", ['C18', 'C15', 'C19'])
V('xml-setdefault-on-copy', 'depccg/printer/xml.py', "            for k, v in token.items():\n                leaf_node.set(k, v)",
  "            token = dict(token)\n            for k in ('lemma', 'pos', 'chunk', 'entity'):\n                token.setdefault(k, 'XX')\n            for k, v in token.items():\n                leaf_node.set(k, v)", ['C18', 'C15', 'C19', 'C07'], expect='silent')
V('auto-reader-counts-brackets', RD_, "    def parse(self):\n        tree = self.next_node()", "    def parse(self):\n        if self.line.count('(') != self.line.count(')'):\n            raise RuntimeError(f'failed to parse: {self.line}')\n        tree = self.next_node()", ['C08'])
V('ptb-dispatch-closing-first', RD_, "        if item[0] == '(':\n            stack.append(Category.parse(item[1:]))\n        elif item[-1] == ')':\n            reduce(item)",
  "        if item[-1] == ')':\n            reduce(item)\n        elif item[0] == '(':\n            stack.append(Category.parse(item[1:]))", ['C20'])
V('auto-fix-any-conj', RD_, "        if cat.endswith(')[conj]') or cat.endswith('][conj]'):", "        if cat.endswith('[conj]'):", ['C08'])
V('auto-fix-conj-tuple', RD_, "        if cat.endswith(')[conj]') or cat.endswith('][conj]'):", "        if cat.endswith((')[conj]', '][conj]')):", ['C08', 'C12'], expect='silent')
V('h-pruning-inclusive', H, "i < config->pruning_size", "i <= config->pruning_size", ['C02', 'C16'])
V('ja-mod-from-first-slot', 'depccg/grammar/ja.py', "    elif ('mod', 'adv') in features:", "    elif isinstance(feature, TernaryFeature) and feature.kv1 == ('mod', 'adv'):", ['C04'])
V('jigg-bare-base-ignorable', 'depccg/printer/jigg_xml.py', "                if x.feature.value is None:", "                if x.feature.is_ignorable:", ['C07', 'C15'])
V('cat-clear-lost-star', 'depccg/cat.py', "            self.right.clear_features(*args)\n", "            self.right.clear_features(args)\n", ['C13', 'C14'])
V('filters-ids-truthy', 'depccg/parsing.py', "            [category_ids[cat] for cat in cats],", "            [category_ids[cat] for cat in cats if category_ids[cat]],", ['C17'])
V('tree-tokens-shares-children', 'depccg/tree.py', "    def tokens(self) -> List[Token]:\n        return [leaf.children[0] for leaf in self.leaves]",
  "    def tokens(self) -> List[Token]:\n        if self.is_leaf:\n            return self.children\n        return [leaf.children[0] for leaf in self.leaves]", ['C18'])
V('guess-via-generator-next', 'depccg/grammar/__init__.py', "    for rule in binary_rules(x, y):\n        if rule.cat == target:\n            return rule\n",
  "    found = next((rule for rule in binary_rules(x, y) if rule.cat == target), None)\n    if found is not None:\n        return found\n", ['C12', 'C15', 'C20'], expect='silent')
# ---------------------------------------------------------------- round 11
V('en-np-guard-set-of-texts', 'depccg/grammar/en.py', 'if str(uni["b"]) in ("N", "NP"):', 'if uni["b"] in {"N", "NP"}:', ['C03'], count=2)
V('en-np-guard-str-in-set', 'depccg/grammar/en.py', 'if str(uni["b"]) in ("N", "NP"):', 'if str(uni["b"]) in {"N", "NP"}:', ['C03', 'C14'], expect='silent', count=2)
V('uni-binds-when-either-is-variable', 'depccg/unification.py', "                if x_feature.is_variable:", "                if x_feature.is_variable or y_feature.is_variable:", ['C06'])
V('typecheck-returns-in-loop', 'depccg/parsing.py', "            )\n\n    return doc, score_results", "            )\n\n        return doc, score_results", ['C11'])
V('filters-break-on-unknown-word', 'depccg/parsing.py', "            if token.word in category_dict:\n                tag_scores[index, category_dict[token.word]\n                           ] = large_negative_value",
  "            if token.word not in category_dict:\n                break\n            tag_scores[index, category_dict[token.word]\n                       ] = large_negative_value", ['C17'])
V('filters-continue-on-unknown-word', 'depccg/parsing.py', "            if token.word in category_dict:\n                tag_scores[index, category_dict[token.word]\n                           ] = large_negative_value",
  "            if token.word not in category_dict:\n                continue\n            tag_scores[index, category_dict[token.word]\n                       ] = large_negative_value", ['C17'], expect='silent')
V('xml-skips-falsy-fields', 'depccg/printer/xml.py', "            for k, v in token.items():\n                leaf_node.set(k, v)", "            for k, v in token.items():\n                if v:\n                    leaf_node.set(k, v)", ['C15'])
V('x-leaf-test-or', PYX, "item.left == NULL and item.right == NULL", "item.left == NULL or item.right == NULL", ['C16', 'C02'])
V('ja-inflection-tests-pos-list', 'depccg/printer/ja.py', "'-'.join(inflections) if len(inflections) else '_'", "'-'.join(inflections) if len(poss) else '_'", ['C20', 'C07'])
# ---------------------------------------------------------------- rounds 12 and 13
V('h-unary-guard-without-one-word-case', H, 'if (length == 1 || item->span_length != length)', 'if (item->span_length != length)', ['C01', 'C10'])
V('h-unary-guard-stricter-is-licensed', H, 'if (length == 1 || item->span_length != length)', 'if (item->span_length != length)', ['C02'], expect='silent')
