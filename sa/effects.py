"""May-alias / mutation analysis for encoders (C18): which values can be (or contain) caller-visible objects,
and which statements modify such a value."""
import ast

from .core import AnalysisError, src, qualname_of, enclosing_function
from .pysym import SymExec, show, subterms
from .rules_pyx import N, C, A, MUTATORS

SHALLOW = {'list', 'dict', 'tuple', 'set', 'frozenset', 'sorted', 'reversed', 'enumerate', 'zip', 'map', 'filter', 'iter'}
# methods that hand out (references to) the receiver's elements
ELEMENT_METHODS = {'get', 'pop', 'items', 'values', 'keys', 'setdefault', 'popitem', '__getitem__'}


def component(t):
    """the i-th component of an element of zip(a, b, ..) is an element of the i-th sequence; of enumerate(xs), the
    counter or an element of xs"""
    if t[0] != 'unpack':
        return t
    base = component(t[1])
    i = t[2]
    if base[0] == 'elem' and base[1][0] == 'call' and base[1][1][0] == 'name' and isinstance(i, int) and not any(a[0] == 'star' for a in base[1][2]):
        f, args = base[1][1][1], base[1][2]
        if f == 'zip' and not base[1][3] and 0 <= i < len(args):
            return ('elem', args[i], None)
        if f == 'enumerate' and args:
            return ('elem', args[0], None) if i == 1 else ('const', 0) if i == 0 else ('unpack', base, i)
    return ('unpack', base, i)


class Alias(object):
    def __init__(self, tainted_names, elems_only=()):
        self.tainted = set(tainted_names)
        # names bound to a container made by the caller for this call (not itself visible outside) whose elements may be
        self.elems_only = set(elems_only) - self.tainted

    def self_(self, t):
        """may t denote a caller-visible (tainted) object itself?"""
        t = component(t)
        k = t[0]
        if k == 'name':
            return t[1] in self.tainted
        if k in ('attr', 'sub', 'elem', 'unpack', 'star'):
            return self.self_(t[1]) or self.elems(t[1])
        if k == 'ifexp':
            return self.self_(t[2]) or self.self_(t[3])
        if k == 'bool':
            return any(self.self_(x) for x in t[2])
        if k == 'call':
            f = t[1]
            if f[0] == 'attr' and f[2] in ELEMENT_METHODS:
                return self.self_(f[1]) or self.elems(f[1])
            if f[0] == 'name' and f[1] == 'next' and t[2]:
                return self.elems(t[2][0])
            if f[0] == 'name' and f[1] == 'vars' and len(t[2]) == 1:
                return self.self_(t[2][0])      # the attribute dictionary of an object is the object
            return False
        return False

    def elems(self, t):
        """may the elements / fields of t be caller-visible objects?"""
        t = component(t)
        k = t[0]
        if k == 'name':
            return t[1] in self.tainted or t[1] in self.elems_only
        if k in ('attr', 'sub', 'elem', 'unpack', 'star'):
            return self.self_(t[1]) or self.elems(t[1])
        if k in ('tuple', 'list', 'set'):
            return any(self.self_(x) or self.elems(x) for x in t[1])
        if k == 'dict':
            return any(self.self_(v) or self.elems(v) for _, v in t[1])
        if k in ('listcomp', 'setcomp', 'genexp'):
            return self.self_(t[1]) or self.elems(t[1])
        if k == 'ifexp':
            return self.elems(t[2]) or self.elems(t[3])
        if k == 'call':
            f = t[1]
            if f[0] == 'name' and f[1] in SHALLOW:
                return any(self.self_(a) or self.elems(a) for a in t[2])
            if f[0] == 'attr' and f[2] in ELEMENT_METHODS | {'copy'}:
                return self.self_(f[1]) or self.elems(f[1])
            return False
        return False


def mutations(fn, tainted, self_is_helper=False, elems_only=(), calls_out=None):
    """-> list of (node, target term, what) where a tainted object is modified inside fn.  calls_out, if given, collects
    (call term, self-taint per positional arg, element-taint per positional arg, keyword taints) for every call event."""
    al = Alias(tainted, elems_only)
    out = []
    seen = set()
    for st, o in SymExec(fn, unroll=1).run():
        for e in st.events:
            if e[0] == 'in-comp':
                e = e[1:]
            if calls_out is not None and e[0] == 'call':
                t = e[1]
                calls_out.append((t, [al.self_(a) for a in t[2]], [al.self_(a) or al.elems(a) for a in t[2]],
                                  {k: (al.self_(v), al.self_(v) or al.elems(v)) for k, v in t[3] if k is not None}))
            tgt = what = None
            if e[0] == 'setattr':
                tgt, what = e[1], 'attribute .%s assigned' % e[2]
            elif e[0] == 'setitem':
                tgt, what = e[1], 'item %s assigned' % show(e[2])[:30]
            elif e[0] == 'aug':
                if e[1][0] == 'name':
                    continue
                tgt, what = e[1][1] if e[1][0] in ('attr', 'sub') else e[1], 'augmented assignment to %s' % show(e[1])[:40]
            elif e[0] == 'del':
                if e[1][0] == 'name':
                    continue
                tgt, what = e[1][1] if e[1][0] in ('attr', 'sub') else e[1], 'del %s' % show(e[1])[:40]
            elif e[0] == 'call':
                f = e[1][1]
                if f[0] == 'attr' and f[2] in MUTATORS:
                    tgt, what = f[1], 'mutating method .%s(%s)' % (f[2], ', '.join(show(a)[:20] for a in e[1][2]))
                elif f in (N('setattr'), N('delattr')) and e[1][2]:
                    tgt, what = e[1][2][0], 'setattr()'
                elif f[0] == 'attr' and f[2] in ('__setattr__', '__delattr__', '__setitem__', '__delitem__') and e[1][2]:
                    # object.__setattr__(x, ..) / x.__setattr__(..): the way round a frozen dataclass
                    tgt, what = (e[1][2][0] if f[1] in (N('object'), N('dict'), N('list')) else f[1]), '%s()' % f[2]
            if tgt is None:
                continue
            if al.self_(tgt):
                key = (id(e[-1]), what)
                if key not in seen:
                    seen.add(key)
                    out.append((e[-1], tgt, what))
    return out
