"""Writer-template / reader-cursor agreement helpers (C07, C08, C15, C20)."""
import ast

from .core import AnalysisError, src
from .pysym import SymExec, show, subterms
from .rules_pyx import N, C, A


def fstr_tokens(t, sep=' '):
    """('fstr', parts) -> list of tokens; a token is a list of parts (str literals / field terms), split at `sep`
    occurring in literal text."""
    if t[0] == 'const' and isinstance(t[1], str):
        t = ('fstr', (t[1],))
    from .pysym import str_parts
    parts_ = str_parts(t)
    if parts_ is not None:
        t = ('fstr', tuple(parts_))        # nested templates, + chains and sep.join of a display are one template
    if t[0] != 'fstr':
        raise AnalysisError('not a template: %s' % show(t)[:60])
    tokens = [[]]
    for p in t[1]:
        if isinstance(p, str):
            pieces = p.split(sep)
            for i, piece in enumerate(pieces):
                if i > 0:
                    tokens.append([])
                if piece:
                    tokens[-1].append(piece)
        else:
            tokens[-1].append(p)
    return tokens


def tok_text(tok):
    return ''.join(x if isinstance(x, str) else '{%s}' % show(x) for x in tok)


def returns_of(fn, **kw):
    """-> [(state, ret term)] for returning paths"""
    return [(st, st.ret) for st, o in SymExec(fn, unroll=1, **kw).run() if o == 'return' and st.ret is not None]


def path_has(st, cond, pol):
    return any(c == cond and p == pol for c, p, _ in st.conds)


class Cursor(object):
    """Symbolic run of a cursor-based reader method: each self.<next>() call yields ('sym','field',k)."""

    def __init__(self, fn, next_name='next', selfname='self'):
        self.fn = fn
        self.paths = []

        def on_call(st, t, node):
            f = t[1]
            if f == A(N(selfname), next_name):
                k = st.data.get('k', 0)
                st.data['k'] = k + 1
                st.data.setdefault('args', {})[k] = t[2]
                return ('sym', 'field', k)
            return None
        for st, o in SymExec(fn, unroll=1, on_call=on_call).run():
            self.paths.append((st, o))


class ReaderPaths(object):
    """All paths through "read one node" of a cursor-based reader class, whatever the division into methods: the walk
    starts at `parse`, the dispatch property / method, the leaf reader and the node reader are inlined (a recursive call
    for a child stays a call), every self.<next>() yields ('sym','field',k) counted from the start of the node.  Paths
    are classified by the Tree factory they call: leaf / unary / binary / other (raise, ...)."""

    def __init__(self, mod, cls_name, next_name='next', entry='parse'):
        import ast as _ast
        from .pysym import VOCABULARY
        cls = mod.get(cls_name)
        methods = {s_.name for s_ in cls.body if isinstance(s_, _ast.FunctionDef)}
        self.entry = mod.get('%s.%s' % (cls_name, entry))

        # methods that move the cursor exactly as the field reader does without handing the field back (`skip()`): a field
        # consumed all the same.  Judged by what they leave in the cursor attributes, compared with the reader's own paths.
        def cursor_effect(fd):
            outs = set()
            for st_, o_ in SymExec(fd, unroll=1).run():
                if o_ not in ('return', 'fall'):
                    return None
                outs.add(tuple(sorted((k_, v_) for k_, v_ in st_.env.items() if isinstance(k_, str) and k_.startswith('self.'))))
            return outs
        movers = set()
        nx = mod.get('%s.%s' % (cls_name, next_name), required=False) if hasattr(mod, 'get') else None
        if nx is not None:
            want_ = cursor_effect(nx)
            for s_ in cls.body:
                if isinstance(s_, _ast.FunctionDef) and s_.name not in (next_name, '__init__', entry) and len(s_.args.args) == 1 and want_ \
                        and not any(isinstance(r_, _ast.Return) and r_.value is not None for r_ in _ast.walk(s_)):
                    try:
                        if cursor_effect(s_) == want_:
                            movers.add(s_.name)
                    except Exception:
                        pass
        self.movers = movers

        def on_call(st, t, node):
            if t[1] == A(N('self'), next_name) or (t[1][0] == 'attr' and t[1][1] == N('self') and t[1][2] in movers and not t[2]):
                k = st.data.get('k', 0)
                st.data['k'] = k + 1
                st.data.setdefault('args', {})[k] = t[2]
                return ('sym', 'field', k)
            if child_read(st, t[1]):
                return t        # a child read inside the node's loop: stays a call, however small the method it reaches
            return None

        def child_read(st, f):
            opened = sum(1 for e in st.events if e[0] == 'loop-enter') - sum(1 for e in st.events if e[0] == 'loop-exit')
            return opened > 0 and any(x[0] == 'attr' and x[1] == N('self') and x[2] in methods - {next_name, 'check', 'peek'} for x in subterms(f))
        ex = SymExec(self.entry, unroll=1, on_call=on_call, inline_also=tuple((methods & set(VOCABULARY)) - {next_name, 'check', 'peek'}),
                     no_inline=(next_name,) + tuple(sorted(movers)))
        ex.fork_filter = lambda st, f: not child_read(st, f)
        self.paths = ex.run()
        self.by_kind = {'leaf': [], 'unary': [], 'binary': [], 'other': []}
        for st, o in self.paths:
            made = [e[1][1][2] for e in st.events if e[0] == 'call' and e[1][1][0] == 'attr' and e[1][1][1] == N('Tree') and e[1][1][2].startswith('make_')]
            kind = {'make_terminal': 'leaf', 'make_unary': 'unary', 'make_binary': 'binary'}.get(made[0], 'other') if len(made) == 1 and o == 'return' else 'other'
            self.by_kind[kind].append((st, o))

    def node_paths(self):
        return self.by_kind['unary'] + self.by_kind['binary']

    @staticmethod
    def value_of(st):
        """the node the path produced: what the entry returns, or its first component when it returns (node, tokens)"""
        r = st.ret
        if r is not None and r[0] == 'tuple' and r[1]:
            return r[1][0]
        return r


def field_ids(t):
    return sorted({s[2] for s in subterms(t) if s[0] == 'sym' and s[1] == 'field'})


def replace_chain(t):
    """x.replace(a,b).replace(c,d) -> (x, [(a,b),(c,d)]) ; otherwise (t, []).  x.translate(str.maketrans({a: b, c: d}))
    with one-character keys and replacement texts free of the keys is the same chain."""
    pairs = []
    while True:
        if t[0] == 'call' and t[1][0] == 'attr' and t[1][2] == 'replace' and len(t[2]) == 2 and \
                all(a[0] == 'const' and isinstance(a[1], str) for a in t[2]):
            pairs.append((t[2][0][1], t[2][1][1]))
            t = t[1][1]
            continue
        if t[0] == 'call' and t[1][0] == 'attr' and t[1][2] == 'translate' and len(t[2]) == 1 and not t[3]:
            tab = t[2][0]
            if tab[0] == 'call' and tab[1] == ('attr', ('name', 'str'), 'maketrans') and len(tab[2]) == 1 and tab[2][0][0] == 'dict':
                items = tab[2][0][1]
                if all(k is not None and k[0] == 'const' and isinstance(k[1], str) and len(k[1]) == 1 and v[0] == 'const' and isinstance(v[1], str)
                       for k, v in items):
                    keys = {k[1] for k, _ in items}
                    if not any(ch in v[1] for _, v in items for ch in keys):
                        for k, v in reversed(items):
                            pairs.append((k[1], v[1]))
                        t = t[1][1]
                        continue
        break
    pairs.reverse()
    return t, pairs


def _unroll_escape_loops(fn, p):
    """`for a, b in TABLE.items(): word = word.replace(a, b)` over a literal table (a dict display, possibly a module-level
    constant the front end has already written in place) is the chain of replacements in the order of the table; a `return`
    from inside such a loop applies only the first replacement that finds something and is reported."""
    import ast
    import copy
    mod = getattr(fn, '_pymodule', None)
    x_ = fn
    while mod is None and getattr(x_, '_parent', None) is not None:
        x_ = x_._parent
        mod = getattr(x_, '_pymodule', None)
    par = getattr(fn, '_parent', None)
    fn._parent = None               # (the copy below must not drag the whole module along)
    try:
        out = copy.deepcopy(fn)
    finally:
        fn._parent = par
    changed = False
    for blk in [n_ for n_ in ast.walk(out) if isinstance(getattr(n_, 'body', None), list)]:
        for i, st_ in enumerate(list(blk.body)):
            if not (isinstance(st_, ast.For) and isinstance(st_.target, ast.Tuple) and len(st_.target.elts) == 2 and all(isinstance(e, ast.Name) for e in st_.target.elts)
                    and isinstance(st_.iter, ast.Call) and isinstance(st_.iter.func, ast.Attribute) and st_.iter.func.attr == 'items' and not st_.orelse):
                continue
            tab = st_.iter.func.value
            if isinstance(tab, ast.Name) and mod is not None:
                tab = mod.literal(tab) if hasattr(mod, 'literal') else tab
            if not (isinstance(tab, ast.Dict) and all(isinstance(k, ast.Constant) and isinstance(v, ast.Constant) for k, v in zip(tab.keys, tab.values))):
                continue
            a_, b_ = st_.target.elts[0].id, st_.target.elts[1].id
            body = st_.body
            if len(body) == 1 and isinstance(body[0], ast.If) and not body[0].orelse and isinstance(body[0].test, ast.Compare) and len(body[0].test.ops) == 1 \
                    and isinstance(body[0].test.ops[0], ast.In) and isinstance(body[0].test.left, ast.Name) and body[0].test.left.id == a_:
                body = body[0].body
            is_rep = lambda v: isinstance(v, ast.Call) and isinstance(v.func, ast.Attribute) and v.func.attr == 'replace' and isinstance(v.func.value, ast.Name) \
                and v.func.value.id == p and len(v.args) == 2 and all(isinstance(x, ast.Name) for x in v.args) and [x.id for x in v.args] == [a_, b_]
            if len(body) == 1 and isinstance(body[0], ast.Return) and is_rep(body[0].value):
                from .core import StructuralViolation
                raise StructuralViolation('R-codec', '%s:%s %s' % (getattr(mod, 'rel', 'depccg/utils.py'), body[0].lineno, fn.name), '%s:first-replacement-only' % fn.name,
                                          '%s returns from inside the loop over its table of replacements (%s): only the first kind of character that occurs is rewritten, '
                                          'so a word with two kinds (`<unk>`) is written half escaped and is not the word read back' % (fn.name, [k.value for k in tab.keys]))
            if len(body) == 1 and isinstance(body[0], ast.Assign) and len(body[0].targets) == 1 and isinstance(body[0].targets[0], ast.Name) \
                    and body[0].targets[0].id == p and is_rep(body[0].value):
                new = []
                for k, v in zip(tab.keys, tab.values):
                    call = ast.Call(func=ast.Attribute(value=ast.Name(id=p, ctx=ast.Load()), attr='replace', ctx=ast.Load()),
                                    args=[ast.Constant(value=k.value), ast.Constant(value=v.value)], keywords=[])
                    new.append(ast.copy_location(ast.Assign(targets=[ast.Name(id=p, ctx=ast.Store())], value=call), st_))
                j = blk.body.index(st_)
                blk.body[j:j + 1] = new
                changed = True
    if changed:
        ast.fix_missing_locations(out)
        from .core import attach_parents
        attach_parents(out)
        out._parent = getattr(fn, '_parent', None)
    return out if changed else fn


def _literal_table(fn, t):
    """the {key: value} of a table term: a dict display of constants, a module-level name bound to one, or to the inverse of one"""
    import ast
    if t[0] == 'dict' and all(k is not None and k[0] == 'const' and v[0] == 'const' for k, v in t[1]):
        return {k[1]: v[1] for k, v in t[1]}
    if t[0] != 'name':
        return None
    mod = None
    x_ = fn
    while mod is None and x_ is not None:
        mod = getattr(x_, '_pymodule', None)
        x_ = getattr(x_, '_parent', None)
    if mod is None:
        return None
    v = mod.assign(t[1], required=False)

    def display(d):
        if isinstance(d, ast.Name):
            d = mod.assign(d.id, required=False)
        if isinstance(d, ast.Dict) and all(isinstance(k, ast.Constant) and isinstance(w, ast.Constant) for k, w in zip(d.keys, d.values)):
            return [(k.value, w.value) for k, w in zip(d.keys, d.values)]
        return None
    if isinstance(v, (ast.Dict, ast.Name)):
        d = display(v)
        return dict(d) if d is not None else None
    if isinstance(v, ast.DictComp) and len(v.generators) == 1 and not v.generators[0].ifs:
        g = v.generators[0]
        if isinstance(g.target, ast.Tuple) and len(g.target.elts) == 2 and all(isinstance(e, ast.Name) for e in g.target.elts) \
                and isinstance(g.iter, ast.Call) and isinstance(g.iter.func, ast.Attribute) and g.iter.func.attr == 'items' and not g.iter.args \
                and isinstance(v.key, ast.Name) and isinstance(v.value, ast.Name):
            a_, b_ = g.target.elts[0].id, g.target.elts[1].id
            d = display(g.iter.func.value)
            if d is not None and (v.key.id, v.value.id) == (b_, a_) and len({w for _k, w in d}) == len(d):
                return {w: k for k, w in d}
            if d is not None and (v.key.id, v.value.id) == (a_, b_):
                return dict(d)
    return None


def whole_word_map(fn):
    """if word == K: return V chains + trailing replace chain -> (whole {K: V}, replaces [(a, b)])"""
    p = fn.args.args[0].arg
    whole, repl = {}, []
    fn = _unroll_escape_loops(fn, p)
    for st, o in SymExec(fn).run():
        if o != 'return':
            continue
        # a dictionary of whole words:  if word in TABLE: return TABLE[word]   (the walker shows the lookup as a chain of
        # conditional expressions over the keys of the literal table)
        dtab = [c[3] for c, pol, _ in st.conds if pol and c[0] == 'cmp' and c[1] == 'in' and c[2] == N(p) and c[3][0] == 'dict']
        if dtab and st.ret is not None and st.ret[0] in ('ifexp', 'const'):
            items = dtab[0][1]
            if all(k is not None and k[0] == 'const' and v[0] == 'const' for k, v in items):
                def lookup(t, key):
                    while t[0] == 'ifexp':
                        c_ = t[1]
                        if c_[0] == 'cmp' and c_[1] == '==' and c_[2] == N(p) and c_[3][0] == 'const':
                            t = t[2] if c_[3][1] == key else t[3]
                        else:
                            return None
                    return t[1] if t[0] == 'const' else None
                got = {k[1]: lookup(st.ret, k[1]) for k, _v in items}
                if all(got[k[1]] == v[1] for k, v in items):
                    whole.update(got)
                    continue
        eqs = [c[3][1] for c, pol, _ in st.conds if pol and c[0] == 'cmp' and c[1] == '==' and c[2] == N(p) and c[3][0] == 'const']
        # table-driven: `if word in KEYS: return VALUES[KEYS.index(word)]`
        tabs = [c[3] for c, pol, _ in st.conds if pol and c[0] == 'cmp' and c[1] == 'in' and c[2] == N(p)]
        if tabs and not eqs:
            keys = tabs[0]
            if keys[0] == 'const' and isinstance(keys[1], str) and len(keys[1]) > 1:
                from .core import StructuralViolation
                raise StructuralViolation('R-codec', '%s:%s %s' % (getattr(getattr(fn, '_pymodule', None), 'rel', 'depccg/utils.py'), fn.lineno, fn.name), '%s:substring-test' % fn.name,
                                          '%s tests `%s in %r`, a substring test on a text: every run of these characters (%r, %r) is taken for the single token and rewritten as one, '
                                          'so the word read back is not the word written' % (fn.name, p, keys[1], keys[1][:2], keys[1][1:3]))
            r = st.ret
            if keys[0] in ('tuple', 'list') and all(k[0] == 'const' for k in keys[1]) and r is not None and r[0] == 'sub' \
                    and r[2] == ('call', A(keys, 'index'), (N(p),), ()):
                vals = r[1]
                seq = list(vals[1]) if vals[0] == 'const' and isinstance(vals[1], str) else ([v[1] for v in vals[1]] if vals[0] in ('tuple', 'list') and all(v[0] == 'const' for v in vals[1]) else None)
                if seq is not None and len(seq) == len(keys[1]):
                    for k, v in zip(keys[1], seq):
                        whole[k[1]] = v
                    continue
        # `return TABLE.get(word, word)`: the words of a literal table (or of the inverse of one, `{b: a for a, b in T.items()}`)
        # are replaced, every other word is returned as it is
        r_ = st.ret
        if not eqs and r_ is not None and r_[0] == 'call' and r_[1][0] == 'attr' and r_[1][2] == 'get' and r_[2] == (N(p), N(p)) and not r_[3]:
            items = _literal_table(fn, r_[1][1])
            if items is not None:
                whole.update(items)
                continue
        if eqs:
            if st.ret[0] != 'const':
                raise AnalysisError('%s: non-constant result for %r' % (fn.name, eqs[0]))
            whole[eqs[0]] = st.ret[1]
        else:
            base, pairs = replace_chain(st.ret)
            if base != N(p):
                raise AnalysisError('%s: fall-through result is %s' % (fn.name, show(st.ret)[:60]))
            repl = pairs
    return whole, repl
