"""Facts about depccg/grammar/{en,ja}.py read from their syntax trees."""
import ast

from .core import AnalysisError, const_str, src, dotted

RESULT_FIELDS = ('cat', 'op_string', 'op_symbol', 'head_is_left')


class ResultCall(object):
    """One `CombinatorResult(...)` construction."""

    def __init__(self, call, mod, func):
        self.call = call
        self.mod = mod
        self.func = func
        self.args = {}
        for name, a in zip(RESULT_FIELDS, call.args):
            self.args[name] = a
        for kw in call.keywords:
            if kw.arg is None:
                raise AnalysisError('%s:%s CombinatorResult(**kwargs) is not analysable'
                                    % (mod.rel, call.lineno))
            self.args[kw.arg] = kw.value
        missing = [f for f in RESULT_FIELDS if f not in self.args]
        if missing:
            raise AnalysisError('%s:%s CombinatorResult(...) lacks %s' % (mod.rel, call.lineno, missing))

    @property
    def where(self):
        return '%s:%s %s' % (self.mod.rel, self.call.lineno, self.func.name)


def is_result_call(node):
    return isinstance(node, ast.Call) and (
        (isinstance(node.func, ast.Name) and node.func.id == 'CombinatorResult')
        or (isinstance(node.func, ast.Attribute) and node.func.attr == 'CombinatorResult'))


def result_calls(mod, func):
    return [ResultCall(n, mod, func) for n in ast.walk(func) if is_result_call(n)]


def registry(mod):
    """names in the module-level `combinators` list, in order."""
    val = mod.assign('combinators')
    if not isinstance(val, (ast.List, ast.Tuple)):
        raise AnalysisError('%s: `combinators` is not a list display' % mod.rel)
    names = []
    for e in val.elts:
        if not isinstance(e, ast.Name):
            raise AnalysisError('%s:%s non-name entry in `combinators`' % (mod.rel, e.lineno))
        names.append(e.id)
    return names


def combinator_functions(mod):
    return [(n, mod.get(n)) for n in registry(mod)]


def has_combinator_signature(fn):
    a = fn.args
    if len(a.args) != 2 or a.vararg or a.kwarg or a.kwonlyargs:
        return False
    ret = fn.returns
    return ret is not None and 'CombinatorResult' in src(ret) and 'Optional' in src(ret)


def const_values(node, fn):
    """Possible constant values of an expression inside fn (literals, conditional
    expressions, single-target local names assigned literals); None if unknown."""
    if isinstance(node, ast.Constant):
        return {node.value}
    if isinstance(node, ast.IfExp):
        a, b = const_values(node.body, fn), const_values(node.orelse, fn)
        if a is None or b is None:
            return None
        return a | b
    if isinstance(node, ast.Name):
        vals = set()
        found = False
        for n in ast.walk(fn):
            if isinstance(n, ast.Assign) and any(isinstance(t, ast.Name) and t.id == node.id for t in n.targets):
                found = True
                v = const_values(n.value, fn)
                if v is None:
                    return None
                vals |= v
            elif isinstance(n, (ast.AugAssign, ast.AnnAssign)) and isinstance(n.target, ast.Name) and n.target.id == node.id:
                return None
        if any(a.arg == node.id for a in fn.args.args):
            return None
        return vals if found else None
    if isinstance(node, ast.Call) and isinstance(node.func, ast.Name):
        # a module-level helper returning string constants on every path
        return None
    return None


def returned_strings(fn):
    """String constants a function can return, from its paths (helpers inlined, module constants and literal lookup
    tables resolved, conditional expressions split); raises if some path returns something else."""
    from .pysym import SymExec, path_values, show
    out = []
    for conds, v in path_values(SymExec(fn, unroll=1).run()):
        if v[0] == 'sub' and v[1][0] in ('tuple', 'list') and v[1][1] and all(x[0] == 'const' for x in v[1][1]):
            out.extend((x[1], fn) for x in v[1][1])       # a literal table indexed by a computed value: any of its entries
            continue
        if v[0] != 'const':
            raise AnalysisError('non-constant return in %s: %s' % (fn.name, show(v)[:80]))
        out.append((v[1], fn))
    return out
