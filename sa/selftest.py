"""Checker self-test: must-fire and must-stay-silent variants on scratch copies.

Each variant is a textual edit (old -> new, `old` must occur exactly `count`
times) of one file of the repository, applied to a scratch copy OUTSIDE /repo
and /verif which is removed immediately afterwards.  The registered check is
run on the copy (VERIF_REPO) with evidence/replay output redirected, so the
real evidence file is not touched by variants.  Results are appended to the
thorough-tier evidence; they never change the verdict on /repo.
"""
import json
import os
import shutil
import subprocess
import sys
import tempfile
import time
from concurrent.futures import ThreadPoolExecutor

from .core import VERIF


def _variants(prop):
    try:
        from . import mutants
    except ImportError:
        return []
    return [v for v in mutants.VARIANTS if prop in v['props']]


def _run_one(prop, v, repo_root):
    t0 = time.time()
    d = tempfile.mkdtemp(prefix='verif-st-%s-' % prop)
    try:
        dst = os.path.join(d, 'repo')
        shutil.copytree(os.path.join(repo_root, 'depccg'), os.path.join(dst, 'depccg'),
                        ignore=shutil.ignore_patterns('__pycache__', '*.pyc', '*.so'))
        edits = v['edits'] if 'edits' in v else [v]
        for e in edits:
            p = os.path.join(dst, e['file'])
            with open(p, encoding='utf-8') as f:
                s = f.read()
            cnt = e.get('count', 1)
            if s.count(e['old']) != cnt:
                return {'id': v['id'], 'status': 'skipped',
                        'why': 'anchor text occurs %d times, expected %d' % (s.count(e['old']), cnt)}
            s = s.replace(e['old'], e['new'])
            with open(p, 'w', encoding='utf-8') as f:
                f.write(s)
        env = dict(os.environ)
        env.update({'VERIF_REPO': dst, 'VERIF_EVIDENCE_DIR': os.path.join(d, 'ev'),
                    'VERIF_REPLAY_DIR': os.path.join(d, 'rp'), 'VERIF_TIER': 'quick'})
        p = subprocess.run([sys.executable, '-m', 'sa.run', prop, '--tier', 'quick'], cwd=VERIF, env=env,
                           stdout=subprocess.PIPE, stderr=subprocess.STDOUT, timeout=300)
        out = p.stdout.decode('utf-8', 'replace')
        findings = [l for l in out.splitlines() if l.startswith('FINDING')]
        want = v['expect']
        if want == 'fire':
            ok = p.returncode == 1
        else:
            ok = p.returncode == 0
        return {'id': v['id'], 'expect': want, 'rc': p.returncode, 'status': 'ok' if ok else 'WRONG',
                'findings': findings[:4], 'tail': out.splitlines()[-3:] if not ok else [],
                'wall_s': round(time.time() - t0, 2)}
    finally:
        shutil.rmtree(d, ignore_errors=True)


def run_variants(prop, repo_root=None, only=None):
    repo_root = repo_root or os.environ.get('VERIF_REPO', '/repo')
    vs = _variants(prop)
    if only:
        vs = [v for v in vs if v['id'] in only]
    with ThreadPoolExecutor(16) as ex:
        return list(ex.map(lambda v: _run_one(prop, v, repo_root), vs))


def run(prop, mod=None):
    """thorough tier: run variants, append to evidence, keep exit code 0."""
    res = run_variants(prop)
    summary = {
        'variants': len(res),
        'must_fire_ok': sum(1 for r in res if r.get('expect') == 'fire' and r['status'] == 'ok'),
        'must_fire_missed': [r['id'] for r in res if r.get('expect') == 'fire' and r['status'] == 'WRONG'],
        'silent_ok': sum(1 for r in res if r.get('expect') == 'silent' and r['status'] == 'ok'),
        'silent_false_alarm': [r['id'] for r in res if r.get('expect') == 'silent' and r['status'] == 'WRONG'],
        'skipped': [r['id'] for r in res if r['status'] == 'skipped'],
        'results': res,
    }
    evp = os.path.join(os.environ.get('VERIF_EVIDENCE_DIR') or os.path.join(VERIF, 'evidence'), prop + '.json')
    try:
        with open(evp) as f:
            ev = json.load(f)
        ev['coverage']['selftest'] = summary
        ev['coverage']['evaluations'] = ev['coverage'].get('evaluations', 0) + len(res)
        with open(evp, 'w') as f:
            json.dump(ev, f, indent=1, sort_keys=True)
            f.write('\n')
    except Exception as e:
        print('selftest: could not extend evidence: %r' % e)
    print('SELFTEST property=%s variants=%d fire_ok=%d fire_missed=%s silent_ok=%d false_alarm=%s skipped=%s'
          % (prop, summary['variants'], summary['must_fire_ok'], summary['must_fire_missed'],
             summary['silent_ok'], summary['silent_false_alarm'], summary['skipped']))
    return 0


if __name__ == '__main__':
    prop = sys.argv[1]
    only = set(sys.argv[2:]) or None
    for r in run_variants(prop, only=only):
        print(json.dumps(r))
