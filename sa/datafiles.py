"""Independent readers for the shipped data files: a jsonnet subset and a category-text grammar.

Neither uses depccg code (Category.parse) -- they are the second opinion the data rules compare against."""
import os
import re

from .core import AnalysisError


class JsonnetError(AnalysisError):
    pass


class _P(object):
    def __init__(self, text, path, loader):
        self.s = text
        self.i = 0
        self.path = path
        self.loader = loader
        self.locals = {}

    def err(self, msg):
        line = self.s.count('\n', 0, self.i) + 1
        raise JsonnetError('%s:%d: %s' % (self.path, line, msg))

    def ws(self):
        s = self.s
        while self.i < len(s):
            c = s[self.i]
            if c in ' \t\r\n':
                self.i += 1
            elif s.startswith('//', self.i) or c == '#':
                j = s.find('\n', self.i)
                self.i = len(s) if j < 0 else j
            elif s.startswith('/*', self.i):
                j = s.find('*/', self.i)
                if j < 0:
                    self.err('unterminated comment')
                self.i = j + 2
            else:
                break

    def peek(self):
        self.ws()
        return self.s[self.i] if self.i < len(self.s) else ''

    def expect(self, ch):
        if self.peek() != ch:
            self.err('expected %r, found %r' % (ch, self.peek()))
        self.i += 1

    def ident(self):
        self.ws()
        m = re.compile(r'[A-Za-z_][A-Za-z0-9_]*').match(self.s, self.i)
        if not m:
            return None
        self.i = m.end()
        return m.group(0)

    def string(self):
        q = self.peek()
        self.i += 1
        out = []
        s = self.s
        while True:
            if self.i >= len(s):
                self.err('unterminated string')
            c = s[self.i]
            if c == q:
                self.i += 1
                return ''.join(out)
            if c == '\\':
                n = s[self.i + 1]
                mp = {'n': '\n', 't': '\t', 'r': '\r', '\\': '\\', '"': '"', "'": "'", '/': '/', 'b': '\b', 'f': '\f'}
                if n == 'u':
                    out.append(chr(int(s[self.i + 2:self.i + 6], 16)))
                    self.i += 6
                    continue
                if n not in mp:
                    self.err('unknown escape \\%s' % n)
                out.append(mp[n])
                self.i += 2
                continue
            out.append(c)
            self.i += 1

    def value(self):
        c = self.peek()
        if c == '{':
            return self.obj()
        if c == '[':
            return self.arr()
        if c and c in '"\'':
            v = self.string()
            return self.postfix(v)
        if c == '(':
            self.i += 1
            v = self.value()
            self.expect(')')
            return self.postfix(v)
        m = re.compile(r'-?\d+(\.\d+)?([eE][-+]?\d+)?').match(self.s, self.i)
        if m:
            self.i = m.end()
            t = m.group(0)
            return float(t) if any(x in t for x in '.eE') else int(t)
        name = self.ident()
        if name is None:
            self.err('unexpected %r' % (c or 'end of file'))
        if name == 'true':
            return True
        if name == 'false':
            return False
        if name == 'null':
            return None
        if name == 'import':
            self.ws()
            p = self.string()
            return self.postfix(self.loader(p, self.path))
        if name == 'local':
            var = self.ident()
            self.expect('=')
            self.locals[var] = self.value()
            self.expect(';')
            return self.value()
        if name in self.locals:
            return self.postfix(self.locals[name])
        self.err('unknown identifier %r' % name)

    def postfix(self, v):
        while True:
            c = self.peek()
            if c == '.':
                self.i += 1
                f = self.ident()
                if isinstance(v, dict) and '__unreadable__' in v:
                    v = {'__unreadable__': v['__unreadable__']}
                    continue
                if not isinstance(v, dict) or f not in v:
                    self.err('no field %r' % f)
                v = v[f]
            elif c == '+':
                self.i += 1
                r = self.value()
                if isinstance(v, list) and isinstance(r, list):
                    v = v + r
                elif isinstance(v, dict) and isinstance(r, dict):
                    v = dict(v, **r)
                elif isinstance(v, str) and isinstance(r, str):
                    v = v + r
                else:
                    self.err('unsupported +')
            else:
                return v

    def obj(self):
        self.expect('{')
        out = {}
        while True:
            c = self.peek()
            if c == '}':
                self.i += 1
                return out
            if c and c in '"\'':
                k = self.string()
            else:
                k = self.ident()
                if k is None:
                    self.err('bad object key')
                if k == 'local':
                    var = self.ident()
                    self.expect('=')
                    self.locals[var] = self.value()
                    if self.peek() == ',':
                        self.i += 1
                    continue
            self.ws()
            if self.s.startswith(':::', self.i):
                self.i += 3
            elif self.s.startswith('::', self.i):
                self.i += 2
            else:
                self.expect(':')
            if k in out:
                self.err('duplicate key %r' % k)
            out[k] = self.value()
            c = self.peek()
            if c == ',':
                self.i += 1
            elif c != '}':
                self.err('expected , or }')

    def arr(self):
        self.expect('[')
        out = []
        while True:
            if self.peek() == ']':
                self.i += 1
                return out
            out.append(self.value())
            c = self.peek()
            if c == ',':
                self.i += 1
            elif c != ']':
                self.err('expected , or ]')


def load_jsonnet(repo, rel, _seen=None):
    _seen = _seen or set()
    if rel in _seen:
        raise JsonnetError('%s: import cycle' % rel)
    text = repo.text(rel)

    def loader(p, frm):
        target = os.path.normpath(os.path.join(os.path.dirname(frm), p))
        try:
            return load_jsonnet(repo, target, _seen | {rel})
        except JsonnetError as e:
            # an import that cannot be read only matters if a rule asks for it
            return {'__unreadable__': '%s (%s)' % (target, e)}
    p = _P(text, rel, loader)
    v = p.value()
    if p.peek() != '':
        p.err('trailing input')
    return v


# ---------------------------------------------------------------------------
# category text
# ---------------------------------------------------------------------------

class CatError(Exception):
    pass


_ATOM = re.compile(r'([^\[\]()/\\|<>\s]+)(?:\[([^\[\]]+)\])?')


def parse_cat(text):
    """-> ('atom', base, feature|None) | ('fn', left, slash, right); raises CatError"""
    pos = [0]

    def operand():
        if pos[0] < len(s) and s[pos[0]] == '(':
            pos[0] += 1
            c = cat()
            if pos[0] >= len(s) or s[pos[0]] != ')':
                raise CatError('missing ) in %r' % text)
            pos[0] += 1
            return c
        m = _ATOM.match(s, pos[0])
        if not m:
            raise CatError('expected an atom at %d in %r' % (pos[0], text))
        pos[0] = m.end()
        return ('atom', m.group(1), m.group(2))

    def cat():
        left = operand()
        if pos[0] < len(s) and s[pos[0]] in '/\\|':
            sl = s[pos[0]]
            pos[0] += 1
            right = operand()
            if pos[0] < len(s) and s[pos[0]] in '/\\|':
                raise CatError('two unbracketed slashes at one level in %r' % text)
            return ('fn', left, sl, right)
        return left
    # blanks next to a delimiter never change a category's value (C05); a blank inside a name or inside the text of a
    # feature cuts that token in two for the reader
    import re as _re
    s = _re.sub(r'\s*([\[\]\(\)/\\|<>])\s*', r'\1', text.strip())
    if _re.search(r'\s', s):
        raise CatError('blank inside an atom or feature in %r' % text)
    if not s:
        raise CatError('empty category %r' % text)
    c = cat()
    if pos[0] != len(s):
        raise CatError('trailing text at %d in %r' % (pos[0], text))
    return c


def show_cat(c):
    if c[0] == 'atom':
        return c[1] + ('[%s]' % c[2] if c[2] else '')
    l, r = show_cat(c[1]), show_cat(c[3])
    if c[1][0] == 'fn':
        l = '(%s)' % l
    if c[3][0] == 'fn':
        r = '(%s)' % r
    return l + c[2] + r


def nargs(c):
    n = 0
    while c[0] == 'fn':
        c = c[1]
        n += 1
    return n


def result_atom(c):
    while c[0] == 'fn':
        c = c[1]
    return c


def feature_pairs(atom):
    f = atom[2]
    if f and '=' in f and ',' in f:
        return [tuple(kv.split('=')) for kv in f.split(',')]
    return None
