"""Propositional reading of path conditions.

The walker (`pysym.SymExec`) records the tests a path passes as terms with a
polarity.  How a decision is *spelt* -- `if a or b:`, `if not a and not b:
return`, nested ifs, guard clauses, `len(x) == 0` versus `not x` -- is a
matter of style; what the rules care about is the decision function: under
which truth values of the elementary tests does a path with a given outcome
run.  This module turns condition terms into formulas over canonical atoms
and enumerates the (small) truth table.

  formula(term)                -> ('atom', key) | ('not', f) | ('and', fs) | ('or', fs) | ('const', b)
  path_formula(conds)          -> conjunction of the (term, polarity) pairs of one path
  atoms_of(f)                  -> set of atom keys
  holds(f, sigma)              -> truth value under sigma: {atom key: bool}
  decision_table(paths, ...)   -> for every assignment, the outcomes of the paths that can run under it
"""
import itertools

NONE = ('const', None)


def _is_len(t):
    return t[0] == 'call' and t[1] == ('name', 'len') and len(t[2]) == 1 and not t[3]


def _order(a, b):
    return (a, b) if repr(a) <= repr(b) else (b, a)


def formula(t):
    k = t[0]
    if k == 'const':
        return ('const', bool(t[1]))
    if k == 'unop' and t[1] == 'not':
        return neg(formula(t[2]))
    if k == 'bool':
        fs = tuple(formula(x) for x in t[2])
        return (t[1], fs)
    if k == 'ifexp':
        c, a, b = formula(t[1]), formula(t[2]), formula(t[3])
        return ('or', (('and', (c, a)), ('and', (neg(c), b))))
    if k == 'cmp':
        op, a, b = t[1], t[2], t[3]
        # emptiness tests on len()
        for x, y, flip in ((a, b, False), (b, a, True)):
            if _is_len(x) and y[0] == 'const' and isinstance(y[1], int) and not isinstance(y[1], bool):
                o = op
                if flip:
                    o = {'<': '>', '>': '<', '<=': '>=', '>=': '<='}.get(op, op)
                tr = ('atom', ('truthy', x[2][0]))
                n = y[1]
                if (o, n) in (('==', 0), ('<=', 0), ('<', 1)):
                    return neg(tr)
                if (o, n) in (('!=', 0), ('>', 0), ('>=', 1)):
                    return tr
        if op in ('is', 'is not') and (b == NONE or a == NONE):
            x = a if b == NONE else b
            if _is_get(x):
                # D.get(k) is None: the key is absent (tables that hold no None values)
                f = neg(('atom', ('in', x[2][0], x[1][1])))
                return f if op == 'is' else neg(f)
            if x[0] == 'sub' and x[1][0] == 'dictcomp':
                # value looked up (with .get) in a dictionary built by a comprehension: absent key, not a None value
                f = neg(('atom', ('in', x[2], x[1])))
                return f if op == 'is' else neg(f)
            f = ('atom', ('isnone', x))
            return f if op == 'is' else neg(f)
        if op in ('==', '!='):
            if b == NONE or a == NONE:      # `x == None` reads as the identity test for the rules' purposes
                x = a if b == NONE else b
                f = ('atom', ('isnone', x))
                return f if op == '==' else neg(f)
            f = ('atom', ('eq',) + _order(a, b))
            return f if op == '==' else neg(f)
        if op in ('is', 'is not'):
            f = ('atom', ('is',) + _order(a, b))
            return f if op == 'is' else neg(f)
        if op in ('in', 'not in'):
            f = ('atom', ('in', a, b))
            return f if op == 'in' else neg(f)
        if op == '<':
            return ('atom', ('lt', a, b))
        if op == '>':
            return ('atom', ('lt', b, a))
        if op == '>=':
            return neg(('atom', ('lt', a, b)))
        if op == '<=':
            return neg(('atom', ('lt', b, a)))
    if k == 'call' and t[1] == ('name', 'bool') and len(t[2]) == 1 and not t[3]:
        return formula(t[2][0])
    if k == 'call' and t[1] == ('name', 'isinstance') and len(t[2]) == 2 and t[2][0][0] == 'ifexp' and not t[3]:
        # a type test of a conditional value is the conditional of the type tests
        c, a, b = t[2][0][1], t[2][0][2], t[2][0][3]
        fc = formula(c)
        return ('or', (('and', (fc, formula(('call', t[1], (a, t[2][1]), ())))), ('and', (neg(fc), formula(('call', t[1], (b, t[2][1]), ()))))))
    if _is_get(t):
        # D.get(k) read as a truth value: present and not empty
        return ('and', (('atom', ('in', t[2][0], t[1][1])), ('atom', ('truthy', ('sub', t[1][1], t[2][0])))))
    return ('atom', ('truthy', t))


def _is_get(t):
    return t[0] == 'call' and t[1][0] == 'attr' and t[1][2] == 'get' and len(t[2]) == 1 and not t[3] and t[1][1][0] in ('name', 'attr')


def neg(f):
    if f[0] == 'not':
        return f[1]
    if f[0] == 'const':
        return ('const', not f[1])
    return ('not', f)


def path_formula(conds):
    fs = []
    for c in conds:
        t, pol = c[0], c[1]
        f = formula(t)
        fs.append(f if pol else neg(f))
    return ('and', tuple(fs))


def atoms_of(f, acc=None):
    acc = set() if acc is None else acc
    if f[0] == 'atom':
        acc.add(f[1])
    elif f[0] == 'not':
        atoms_of(f[1], acc)
    elif f[0] in ('and', 'or'):
        for g in f[1]:
            atoms_of(g, acc)
    return acc


def holds(f, sigma):
    k = f[0]
    if k == 'const':
        return f[1]
    if k == 'atom':
        return sigma[f[1]]
    if k == 'not':
        return not holds(f[1], sigma)
    if k == 'and':
        return all(holds(g, sigma) for g in f[1])
    if k == 'or':
        return any(holds(g, sigma) for g in f[1])
    raise ValueError(f)


MAX_ATOMS = 14


def decision_table(paths):
    """paths: list of (conds, outcome).  -> (atoms, rows) where rows is a list of (sigma, [outcomes of paths whose
    conditions all hold under sigma]).  Raises ValueError when the table would be too large."""
    fs = [(path_formula(conds), out) for conds, out in paths]
    atoms = set()
    for f, _ in fs:
        atoms_of(f, atoms)
    atoms = sorted(atoms, key=repr)
    if len(atoms) > MAX_ATOMS:
        raise ValueError('%d elementary tests' % len(atoms))
    rows = []
    for vals in itertools.product((False, True), repeat=len(atoms)):
        sigma = dict(zip(atoms, vals))
        rows.append((sigma, [out for f, out in fs if holds(f, sigma)]))
    return atoms, rows


def _facts(conds):
    facts = set()

    def add(f):
        if f[0] == 'and':
            for g in f[1]:
                add(g)
        elif f[0] == 'not' and f[1][0] == 'or':
            for g in f[1][1]:
                add(neg(g))
        elif f[0] == 'not' and f[1][0] == 'not':
            add(f[1][1])
        else:
            facts.add(f)
    for c in conds:
        f = formula(c[0])
        add(f if c[1] else neg(f))
    return facts


def _entails(facts, f):
    if f in facts:
        return True
    if f[0] == 'const':
        return f[1]
    if f[0] == 'and':
        return all(_entails(facts, g) for g in f[1])
    if f[0] == 'or':
        return any(_entails(facts, g) for g in f[1])
    if f[0] == 'not':
        return _refutes(facts, f[1])
    return False


def _refutes(facts, f):
    if neg(f) in facts:
        return True
    if f[0] == 'const':
        return not f[1]
    if f[0] == 'or':
        return all(_refutes(facts, g) for g in f[1])
    if f[0] == 'and':
        return any(_refutes(facts, g) for g in f[1])
    if f[0] == 'not':
        return _entails(facts, f[1])
    return False


def implied(conds, f):
    """do the path conditions propositionally imply formula f?  (structural entailment first -- it also works when
    there are too many elementary tests for a truth table -- then the table)"""
    if _entails(_facts(conds), f):
        return True
    pf = path_formula(conds)
    atoms = sorted(atoms_of(pf) | atoms_of(f), key=repr)
    if len(atoms) > MAX_ATOMS:
        return False
    for vals in itertools.product((False, True), repeat=len(atoms)):
        sigma = dict(zip(atoms, vals))
        if holds(pf, sigma) and not holds(f, sigma):
            return False
    return True


def excluded(conds, f):
    """do the path conditions propositionally contradict formula f?"""
    return implied(conds, neg(f))


def show_sigma(sigma, show):
    out = []
    for k, v in sorted(sigma.items(), key=repr):
        txt = '%s(%s)' % (k[0], ', '.join(show(x) for x in k[1:]))
        out.append(txt if v else 'not ' + txt)
    return ' & '.join(out)


def truth_function(path_vals, constraint=None):
    """Read a boolean-valued function off its paths.  path_vals: [(conds, value)] where value is a term (read as a
    truth value), or a string tag ('raise', ...).  -> (atoms, rows): rows = [(sigma, results)] with results the set of
    bool / tag values of all paths that can run under sigma.  `constraint(sigma)` filters impossible assignments."""
    items = []
    atoms = set()
    for conds, val in path_vals:
        pf = path_formula(conds)
        vf = formula(val) if isinstance(val, tuple) else None
        atoms_of(pf, atoms)
        if vf is not None:
            atoms_of(vf, atoms)
        items.append((pf, vf, val))
    atoms = sorted(atoms, key=repr)
    if len(atoms) > MAX_ATOMS:
        raise ValueError('%d elementary tests' % len(atoms))
    rows = []
    for vals in itertools.product((False, True), repeat=len(atoms)):
        sigma = dict(zip(atoms, vals))
        if constraint is not None and not constraint(sigma):
            continue
        res = set()
        for pf, vf, val in items:
            if holds(pf, sigma):
                res.add(holds(vf, sigma) if vf is not None else val)
        rows.append((sigma, res))
    return atoms, rows


def any_of(sigma, atoms):
    return any(sigma[a] for a in atoms)


def satisfiable(conds, constraint=None):
    pf = path_formula(conds)
    atoms = sorted(atoms_of(pf), key=repr)
    if len(atoms) > MAX_ATOMS:
        return True
    for vals in itertools.product((False, True), repeat=len(atoms)):
        sigma = dict(zip(atoms, vals))
        if (constraint is None or constraint(sigma)) and holds(pf, sigma):
            return True
    return False


def equivalent(path_vals, spec, constraint=None):
    """is the boolean function read off the paths the formula `spec`?  -> (ok, mismatches, atoms); a mismatch is
    (sigma, results, expected).  Atoms of spec missing from the code simply make rows differ."""
    atoms, rows0 = truth_function(path_vals, constraint)
    extra = sorted(atoms_of(spec) - set(atoms), key=repr)
    if len(atoms) + len(extra) > MAX_ATOMS:
        raise ValueError('%d elementary tests' % (len(atoms) + len(extra)))
    bad = []
    n = 0
    for sigma, results in rows0:
        for vals in itertools.product((False, True), repeat=len(extra)):
            s2 = dict(sigma)
            s2.update(zip(extra, vals))
            if constraint is not None and not constraint(s2):
                continue
            n += 1
            want = holds(spec, s2)
            if results != {want}:
                bad.append((s2, results, want))
    return not bad and n > 0, bad, atoms


def selector_values(conds, var):
    """what the (term, polarity) pairs say about `var` compared with constants: -> (allowed, excluded) where allowed is
    None (no positive test) or the set of constants var is known to be among, excluded the constants it is known not
    to be.  Reads ==, !=, in / not in over tuples, lists, sets and the keys of literal dicts."""
    allowed = None
    excluded = set()

    def members(t):
        if t[0] in ('tuple', 'list', 'set') and all(x[0] == 'const' for x in t[1]):
            return {x[1] for x in t[1]}
        if t[0] == 'dict' and all(k is not None and k[0] == 'const' for k, _ in t[1]):
            return {k[1] for k, _ in t[1]}
        return None
    for c in conds:
        f = formula(c[0])
        pol = c[1]
        if f[0] == 'not':
            f, pol = f[1], not pol
        if f[0] != 'atom':
            continue
        a = f[1]
        vals = None
        if a[0] == 'eq' and var in a[1:]:
            other = [x for x in a[1:] if x != var]
            if other and other[0][0] == 'const':
                vals = {other[0][1]}
        elif a[0] == 'in' and a[1] == var:
            vals = members(a[2])
        if vals is None:
            continue
        if pol:
            allowed = vals if allowed is None else (allowed & vals)
        else:
            excluded |= vals
    if allowed is not None:
        allowed = allowed - excluded
    return allowed, excluded
