"""Abstract evaluation of combinator bodies (grammar/en.py, grammar/ja.py).

A combinator is reduced to *outcomes*: (path conditions, None | result record)
where the record's `cat` is evaluated to a pattern tree

  ('var', 'a')                      binding of a meta variable (uni['a'])
  ('in', 'x')                       an input category itself
  ('fn', L, S, R)                   functor; S = ('lit', '/') | ('slashof', 'x', 'left.left')
  ('litcat', text)                  Category.parse("text")
  ('sub-in', 'x', 'left.right')     a sub-category of an input

The patterns of `Unification(px, py)` are parsed with a small independent
parser (not Category.parse).
"""
import ast

from .core import AnalysisError, src
from .pysym import SymExec, show
from .rules_pyx import N, C, A


# ---------------------------------------------------------------------------
# pattern strings
# ---------------------------------------------------------------------------

def parse_pattern(s):
    s = s.strip()
    # strip redundant outer brackets
    while s.startswith('(') and _matching(s, 0) == len(s) - 1:
        s = s[1:-1].strip()
    depth = 0
    tops = []
    for i, ch in enumerate(s):
        if ch == '(':
            depth += 1
        elif ch == ')':
            depth -= 1
            if depth < 0:
                raise AnalysisError('unbalanced pattern %r' % s)
        elif ch in '/\\|' and depth == 0:
            tops.append(i)
    if depth != 0:
        raise AnalysisError('unbalanced pattern %r' % s)
    if not tops:
        if not s or any(c in s for c in '()[]'):
            raise AnalysisError('pattern atom %r is not a plain meta variable' % s)
        return ('var', s)
    if len(tops) != 1:
        raise AnalysisError('pattern %r has several unbracketed slashes' % s)
    i = tops[0]
    return ('fn', parse_pattern(s[:i]), s[i], parse_pattern(s[i + 1:]))


def _matching(s, i):
    depth = 0
    for j in range(i, len(s)):
        if s[j] == '(':
            depth += 1
        elif s[j] == ')':
            depth -= 1
            if depth == 0:
                return j
    return -1


def pattern_vars(p):
    if p[0] == 'var':
        return [p[1]]
    return pattern_vars(p[1]) + pattern_vars(p[3])


def show_pat(p):
    if p[0] == 'var':
        return p[1]
    if p[0] == 'in':
        return '<%s>' % p[1]
    if p[0] == 'litcat':
        return '"%s"' % p[1]
    if p[0] == 'sub-in':
        return '<%s.%s>' % (p[1], p[2])
    if p[0] == 'fn':
        s = p[2]
        if isinstance(s, tuple):
            s = s[1] if s[0] == 'lit' else 'slash(%s%s)' % (s[1], '.' + s[2] if s[2] else '')
        l, r = show_pat(p[1]), show_pat(p[3])
        if p[1][0] == 'fn':
            l = '(%s)' % l
        if p[3][0] == 'fn':
            r = '(%s)' % r
        return '%s%s%s' % (l, s, r)
    if p[0] == 'unknown':
        return '?%s?' % p[1]
    return str(p)


def depth_along_left(p, target):
    """number of functor levels from the top of p down its left spine to ('var', target); None if absent."""
    n = 0
    while p[0] == 'fn':
        p = p[1]
        n += 1
    return n if p == ('var', target) else None


# ---------------------------------------------------------------------------
# outcomes of a combinator
# ---------------------------------------------------------------------------

class Outcome(object):
    def __init__(self, conds, result, node):
        self.conds = conds      # [(term, polarity)]
        self.result = result    # None | dict(cat=term, op_string=.., op_symbol=.., head_is_left=..)
        self.node = node


def _expand_ifexp(conds, t):
    """split a term on its top-level conditional expressions; the conditions are recorded the way the walker records the
    tests of if statements (short-circuit alternatives, `not` as polarity), contradictory combinations are dropped"""
    from .pysym import expand_cond, contradictory
    if t[0] == 'ifexp':
        for pol, branch in ((True, t[2]), (False, t[3])):
            for alt in expand_cond(t[1], pol):
                cs = conds + [(a, p) for a, p in alt]
                if contradictory(cs):
                    continue
                for r in _expand_ifexp(cs, branch):
                    yield r
    else:
        yield conds, t


def _unstr(t, params):
    """a category compared as a text is compared through its canonical text either way: `str(x) == "NP"` / `str(x) in (..)`
    read like `x == "NP"` / `x in (..)` for the two category parameters of a rule"""
    if not isinstance(t, tuple):
        return t
    if t and t[0] == 'cmp' and t[1] in ('==', '!=', 'in', 'not in'):
        a, b = t[2], t[3]
        if a[0] == 'call' and a[1] == N('str') and len(a[2]) == 1 and not a[3] and a[2][0][0] == 'name' and a[2][0][1] in params:
            text_side = (b[0] == 'const' and isinstance(b[1], str)) or (b[0] in ('tuple', 'list', 'set') and all(x[0] == 'const' and isinstance(x[1], str) for x in b[1]))
            if text_side:
                return ('cmp', t[1], a[2][0], b)
    return tuple(_unstr(x, params) for x in t)


_RESULT_DEFAULTS = None


def _result_defaults():
    """constant defaults of the fields of the NamedTuple CombinatorResult (depccg/types.py): {field: term}"""
    global _RESULT_DEFAULTS
    if _RESULT_DEFAULTS is None:
        _RESULT_DEFAULTS = {}
        try:
            import ast as _ast
            from .core import Repo
            tm = Repo().module('depccg/types.py')
            for c_ in tm.tree.body:
                if isinstance(c_, _ast.ClassDef) and c_.name == 'CombinatorResult':
                    for s_ in c_.body:
                        if isinstance(s_, _ast.AnnAssign) and isinstance(s_.target, _ast.Name) and isinstance(s_.value, _ast.Constant):
                            _RESULT_DEFAULTS[s_.target.id] = C(s_.value.value)
        except Exception:
            pass
    return _RESULT_DEFAULTS


def outcomes(fn):
    outs = []
    params_ = [a.arg for a in fn.args.args]
    for st, out in SymExec(fn, unroll=1).run():
        conds = [(_unstr(c, params_), p) for c, p, _ in st.conds]
        node = None
        for e in reversed(st.events):
            if e[0] == 'return':
                node = e[2]
                break
        if out == 'raise':
            outs.append(Outcome(conds, 'raise', node))
            continue
        ret = st.ret if out == 'return' else C(None)
        for cs, r in _expand_ifexp(conds, ret):
            if r == C(None):
                outs.append(Outcome(cs, None, node))
            elif r[0] == 'call' and r[1] in (N('CombinatorResult'), A(N('types'), 'CombinatorResult')):
                rec = {}
                for name, a in zip(('cat', 'op_string', 'op_symbol', 'head_is_left'), r[2]):
                    rec[name] = a
                for k, v in r[3]:
                    rec[k] = v
                for k_, v_ in _result_defaults().items():
                    rec.setdefault(k_, v_)          # a field the record type gives a default for (head_is_left: bool = True)
                if set(rec) != {'cat', 'op_string', 'op_symbol', 'head_is_left'}:
                    raise AnalysisError('%s:%s CombinatorResult with fields %s' % (fn.name, getattr(node, 'lineno', '?'), sorted(rec)))
                for cs2, cat in _expand_ifexp(cs, rec['cat']):
                    rec2 = dict(rec)
                    rec2['cat'] = cat
                    outs.append(Outcome(cs2, rec2, node))
            else:
                raise AnalysisError('%s returns %s: neither None nor a CombinatorResult' % (fn.name, show(r)[:80]))
    return outs


def unification_of(conds, params):
    """-> (uni_term, px, py, succeeded: bool) for the Unification matcher tested on this path, or None."""
    for c, pol in conds:
        if c[0] == 'call' and c[1][0] == 'call' and c[1][1] == N('Unification') and len(c[1][2]) == 2:
            a = c[1][2]
            if a[0][0] == 'const' and a[1][0] == 'const' and c[2] == (N(params[0]), N(params[1])):
                return c[1], a[0][1], a[1][1], pol
            raise AnalysisError('Unification used with non-literal patterns or other arguments: %s' % show(c)[:100])
    return None


def absval(t, uni, params):
    """term -> pattern tree"""
    if t[0] == 'name' and t[1] in params:
        return ('in', t[1])
    if t[0] == 'sub' and uni is not None and t[1] == uni and t[2][0] == 'const':
        return ('var', t[2][1])
    if t[0] == 'binop' and t[1] == '/':
        return ('fn', absval(t[2], uni, params), ('lit', '/'), absval(t[3], uni, params))
    if t[0] == 'binop' and t[1] == '|':
        return ('fn', absval(t[2], uni, params), ('lit', '\\'), absval(t[3], uni, params))
    if t[0] == 'call' and t[1][0] == 'attr' and t[1][2] == 'functor' and len(t[2]) == 2:
        base = t[1][1]
        path = []
        while base[0] == 'attr' and base[2] in ('left', 'right'):
            path.append(base[2])
            base = base[1]
        if base[0] == 'name' and base[1] in params:
            return ('fn', absval(t[2][0], uni, params), ('slashof', base[1], '.'.join(reversed(path))),
                    absval(t[2][1], uni, params))
    if t[0] == 'call' and t[1] == N('Functor') and len(t[2]) == 3:
        s = t[2][1]
        if s[0] == 'const':
            sl = ('lit', s[1])
        elif s[0] == 'attr' and s[2] == 'slash':
            base = s[1]
            path = []
            while base[0] == 'attr' and base[2] in ('left', 'right'):
                path.append(base[2])
                base = base[1]
            sl = ('slashof', base[1], '.'.join(reversed(path))) if base[0] == 'name' and base[1] in params else ('unknown', show(s))
        else:
            sl = ('unknown', show(s))
        return ('fn', absval(t[2][0], uni, params), sl, absval(t[2][2], uni, params))
    if t[0] == 'call' and t[1] == A(N('Category'), 'parse') and len(t[2]) == 1 and t[2][0][0] == 'const':
        return ('litcat', t[2][0][1])
    if t[0] == 'attr' and t[2] in ('left', 'right'):
        base = t
        path = []
        while base[0] == 'attr' and base[2] in ('left', 'right'):
            path.append(base[2])
            base = base[1]
        if base[0] == 'name' and base[1] in params:
            return ('sub-in', base[1], '.'.join(reversed(path)))
    return ('unknown', show(t)[:80])


def expected_composition(secondary_pat, secondary_input, a='a', b='b'):
    """secondary pattern with b replaced by a; wildcard slashes realised from the secondary input's own nodes.
    -> (expected tree, alternatives per slash)"""
    def rec(p, path):
        if p[0] == 'var':
            return ('var', a) if p[1] == b else p
        s = p[2]
        sl = ('slashof', secondary_input, path) if s == '|' else ('lit', s)
        return ('fn', rec(p[1], (path + '.left').lstrip('.')), sl, rec(p[3], (path + '.right').lstrip('.')))
    return rec(secondary_pat, '')


def trees_equal(got, want, secondary_input):
    """structural equality; where the pattern pins a literal slash, the code may use either that literal or the
    slash of the same node of the secondary input."""
    if got[0] != want[0]:
        return False
    if got[0] == 'fn':
        gs, ws = got[2], want[2]
        ok = gs == ws
        if not ok and ws[0] == 'lit' and gs[0] == 'slashof':
            ok = False      # handled by caller with path knowledge (see below)
        return ok and trees_equal(got[1], want[1], secondary_input) and trees_equal(got[3], want[3], secondary_input)
    return got == want


def trees_equal_paths(got, want, secondary_input, path=''):
    if got[0] != want[0]:
        return False
    if got[0] == 'fn':
        gs, ws = got[2], want[2]
        ok = gs == ws or (ws[0] == 'lit' and gs == ('slashof', secondary_input, path))
        return ok and trees_equal_paths(got[1], want[1], secondary_input, (path + '.left').lstrip('.')) \
            and trees_equal_paths(got[3], want[3], secondary_input, (path + '.right').lstrip('.'))
    return got == want
