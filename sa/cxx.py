"""C++ front end: clang's type-resolved AST of depccg/parsing.h, as terms.

clang++ is used strictly as a parser (-fsyntax-only -ast-dump=json); nothing is
compiled to code or run.  On top of the JSON AST this module provides

* ``N`` -- a light node with wrappers (implicit casts, parens, temporaries,
  copy constructions) removed and source lines resolved;
* ``term(n, env)`` -- expressions as nested tuples with single-assignment
  scalar / pointer locals inlined;
* ``linear(t)`` -- float expressions as a multiset of signed atoms
  (commutative / associative normal form of + and -).
"""
import hashlib
import json
import os
import pickle
import subprocess
import tempfile

from .core import AnalysisError, VERIF

CLANG = os.environ.get('VERIF_CLANG', 'clang++-14')
HEADER = 'depccg/parsing.h'

_WRAPPERS = {'ImplicitCastExpr', 'ParenExpr', 'MaterializeTemporaryExpr',
             'CXXBindTemporaryExpr', 'ExprWithCleanups', 'ConstantExpr',
             'CXXFunctionalCastExpr', 'CStyleCastExpr', 'CXXStaticCastExpr'}


class N(object):
    __slots__ = ('storage', 'dtype', 'kind', 'name', 'type', 'op', 'value', 'ref', 'refid', 'reftype', 'arrow',
                 'kids', 'line', 'id', 'parent', 'raw_kind', 'init_style', 'is_postfix',
                 'has_else', 'cast')

    def __init__(self):
        self.kids = []
        self.parent = None

    def walk(self):
        yield self
        for k in self.kids:
            for x in k.walk():
                yield x

    def find(self, kind=None, pred=None):
        return [n for n in self.walk()
                if (kind is None or n.kind == kind) and (pred is None or pred(n))]

    def ancestors(self):
        p = self.parent
        while p is not None:
            yield p
            p = p.parent

    def __repr__(self):
        return '<%s %s L%s>' % (self.kind, self.name or self.op or self.ref or '', self.line)


class _LineTracker(object):
    def __init__(self):
        self.line = 0
        self.file = None

    def see(self, loc):
        if not isinstance(loc, dict):
            return
        for key in ('spellingLoc', 'expansionLoc'):
            if key in loc:
                self.see(loc[key])
        if 'file' in loc:
            self.file = loc['file']
        if 'line' in loc:
            self.line = loc['line']


def _convert(j, tracker, parent=None):
    tracker.see(j.get('loc'))
    rng = j.get('range') or {}
    tracker.see(rng.get('begin'))
    begin_line = tracker.line
    tracker.see(rng.get('end'))
    n = N()
    n.parent = parent
    n.kind = j.get('kind')
    n.raw_kind = n.kind
    n.name = j.get('name')
    t = j.get('type')
    n.type = t.get('qualType') if isinstance(t, dict) else None
    n.dtype = (t.get('desugaredQualType') or t.get('qualType')) if isinstance(t, dict) else None
    n.op = j.get('opcode')
    n.value = j.get('value')
    n.cast = j.get('castKind')
    n.storage = (j.get('storageClass') or '') + ('+tls' if j.get('tls') else '')
    rd = j.get('referencedDecl') or {}
    n.ref = rd.get('name')
    n.refid = rd.get('id')
    rt = rd.get('type')
    n.reftype = rt.get('qualType') if isinstance(rt, dict) else None
    if n.kind == 'MemberExpr':
        n.refid = j.get('referencedMemberDecl')
    n.arrow = bool(j.get('isArrow'))
    n.line = begin_line
    n.id = j.get('id')
    n.init_style = j.get('init')
    n.is_postfix = j.get('isPostfix')
    n.has_else = j.get('hasElse')
    for c in j.get('inner', []) or []:
        if not c:           # clang prints {} for absent optional children
            k = N()
            k.kind = 'Null'
            k.raw_kind = 'Null'
            k.name = k.type = k.dtype = k.op = k.value = k.ref = k.refid = k.reftype = None
            k.arrow = False
            k.storage = ''
            k.line = tracker.line
            k.id = None
            k.parent = n
            k.init_style = k.is_postfix = k.has_else = k.cast = None
            n.kids.append(k)
            continue
        n.kids.append(_convert(c, tracker, n))
    return n


def strip(n):
    """Look through value-preserving wrappers."""
    while True:
        if n.kind in _WRAPPERS and len(n.kids) == 1:
            n = n.kids[0]
        elif n.kind == 'CXXConstructExpr' and len(n.kids) == 1:
            n = n.kids[0]            # copy / move / converting construction
        elif n.kind == 'CXXDefaultArgExpr':
            return n
        else:
            return n


def _run_clang(repo_root, flt):
    with tempfile.TemporaryDirectory(prefix='verif-cxx-') as d:
        tu = os.path.join(d, 'tu.cpp')
        with open(tu, 'w') as f:
            f.write('#include <climits>\n#include "%s"\n' % HEADER)
        cmd = [CLANG, '-std=c++11', '-fsyntax-only', '-I', repo_root,
               '-Xclang', '-ast-dump=json', '-Xclang', '-ast-dump-filter=' + flt, tu]
        try:
            p = subprocess.run(cmd, stdout=subprocess.PIPE, stderr=subprocess.PIPE, timeout=120)
        except (OSError, subprocess.TimeoutExpired) as e:
            raise AnalysisError('clang front end failed to run: %s' % e)
        if p.returncode != 0:
            raise AnalysisError('clang cannot parse %s (the extension build would fail too): %s'
                                % (HEADER, p.stderr.decode('utf-8', 'replace')[-600:]))
        return p.stdout.decode('utf-8', 'replace')


def _split_docs(txt):
    dec = json.JSONDecoder()
    i, docs = 0, []
    while i < len(txt):
        while i < len(txt) and txt[i].isspace():
            i += 1
        if i >= len(txt):
            break
        o, j = dec.raw_decode(txt, i)
        docs.append(o)
        i = j
    return docs


FILTERS = ('parse_sentence', 'parsing::', 'combinator_result', 'config', 'utils::argmax')


def load(repo):
    """-> dict name -> N for the top-level declarations of interest.

    Cached under /verif/out keyed by the digest of the header text, the
    clang binary name and this file, so a changed header is always re-parsed.
    """
    text = repo.text(HEADER)
    with open(__file__, 'rb') as f:
        me = f.read()
    digest = hashlib.sha256(text.encode() + CLANG.encode() + me).hexdigest()[:24]
    cdir = os.path.join(VERIF, 'out', 'cache')
    cpath = os.path.join(cdir, 'cxx-%s.pkl' % digest)
    if os.path.exists(cpath):
        try:
            with open(cpath, 'rb') as f:
                return pickle.load(f)
        except Exception:
            pass
    from concurrent.futures import ThreadPoolExecutor
    with ThreadPoolExecutor(len(FILTERS)) as ex:
        outs = list(ex.map(lambda flt: _run_clang(repo.root, flt), FILTERS))
    decls = {}
    for flt, out in zip(FILTERS, outs):
        for doc in _split_docs(out):
            tracker = _LineTracker()
            n = _convert(doc, tracker)
            name = n.name
            if name is None:
                continue
            if flt == 'config' and not (n.kind == 'CXXRecordDecl' and name == 'config'):
                continue
            if flt == 'combinator_result' and not (n.kind == 'CXXRecordDecl' and name == 'combinator_result'):
                continue
            if flt == 'utils::argmax':
                if n.kind != 'FunctionTemplateDecl':
                    continue
                inst = [k for k in n.kids if k.kind == 'FunctionDecl' and any(c.kind == 'TemplateArgument' for c in k.kids)]
                if inst:
                    decls['utils::argmax'] = inst[-1]
                continue
            # keep the definition (the one with a body / fields)
            if name not in decls or len(list(n.walk())) > len(list(decls[name].walk())):
                decls[name] = n
    for need in ('parse_sentence', 'cell_item', 'chart', 'matrix', 'operator<',
                 'compute_outside_probabilities', 'config', 'combinator_result', 'utils::argmax'):
        if need not in decls:
            raise AnalysisError('%s: declaration %r not found by clang' % (HEADER, need))
    try:
        os.makedirs(cdir, exist_ok=True)
        import sys
        sys.setrecursionlimit(20000)
        tmp = cpath + '.%d.tmp' % os.getpid()
        with open(tmp, 'wb') as f:
            pickle.dump(decls, f, protocol=pickle.HIGHEST_PROTOCOL)
        os.replace(tmp, cpath)
    except Exception:
        pass
    return decls


# ---------------------------------------------------------------------------
# Records
# ---------------------------------------------------------------------------

def fields_of(record):
    return [k.name for k in record.kids if k.kind == 'FieldDecl']


def method(record, name, all_=False):
    out = [k for k in record.kids if k.kind in ('CXXMethodDecl', 'CXXConstructorDecl')
           and k.name == name and any(c.kind == 'CompoundStmt' for c in k.kids)]
    if all_:
        return out
    if not out:
        raise AnalysisError('%s: method %r of %s not found' % (HEADER, name, record.name))
    return out[0]


def body_of(fn):
    for k in fn.kids:
        if k.kind == 'CompoundStmt':
            return k
    raise AnalysisError('%s: %s has no body' % (HEADER, fn.name))


def params_of(fn):
    return [k for k in fn.kids if k.kind == 'ParmVarDecl']


# ---------------------------------------------------------------------------
# Terms
# ---------------------------------------------------------------------------
# ('var', name) ('lit', v) ('mem', base, field) ('addr', x) ('deref', x)
# ('call', fname, (args)) ('mcall', obj, method, (args)) ('idx', obj, (args))
# ('bin', op, l, r) ('un', op, x) ('cond', c, a, b) ('init', (items))
# ('this',) ('lambda', line) ('new', type) ('unknown', kind)

# methods whose value cannot change between a local's definition and its use in
# this header (reads of containers that are popped/pushed -- top, size, front --
# are deliberately absent: a local holding such a value is kept as a variable)
PURE_METHODS = {'count', 'argmax', 'score', 'end_of_span', 'at', 'contains'}
PURE_FUNCS = {'exp', 'log', 'expf', 'logf', 'lowest', 'max', 'min', 'argmax'}


class Env(object):
    """Single-assignment scalar/pointer locals of one function, for inlining."""

    def __init__(self, fn):
        self.fn = fn
        self.decl = {}      # decl id -> VarDecl node
        self.mutated = set()
        for n in fn.walk():
            if n.kind in ('VarDecl', 'ParmVarDecl') and n.id:
                self.decl[n.id] = n
        for n in fn.walk():
            tgt = None
            if n.kind in ('BinaryOperator', 'CompoundAssignOperator') and n.op and \
                    (n.op == '=' or (n.op.endswith('=') and n.op not in ('==', '!=', '<=', '>='))):
                tgt = strip(n.kids[0])
            elif n.kind == 'UnaryOperator' and n.op in ('++', '--'):
                tgt = strip(n.kids[0])
            elif n.kind == 'CXXOperatorCallExpr' and n.kids and strip(n.kids[0]).ref in (
                    'operator=', 'operator+=', 'operator-=', 'operator++', 'operator--'):
                tgt = strip(n.kids[1]) if len(n.kids) > 1 else None
            if tgt is not None and tgt.kind == 'DeclRefExpr' and tgt.refid:
                self.mutated.add(tgt.refid)
            if n.kind == 'UnaryOperator' and n.op == '&':
                a = strip(n.kids[0])        # address taken: may be written through the pointer
                if a.kind == 'DeclRefExpr' and a.refid:
                    self.mutated.add(a.refid)
        self._cache = {}

    def init_of(self, decl):
        for k in decl.kids:
            if k.kind not in ('Null',) and not k.kind.endswith('Attr'):
                return k
        return None

    def inlinable(self, decl):
        if decl.kind != 'VarDecl' or decl.id in self.mutated:
            return False
        t = (decl.type or '').replace('const ', '').strip()
        scalar = t in ('float', 'double', 'unsigned int', 'int', 'bool', 'unsigned', 'auto',
                       'category_id', 'unsigned long', 'size_t', 'std::size_t') or t.endswith('*')
        if not scalar:
            return False
        init = self.init_of(decl)
        if init is None:
            return False
        t_init = term(init, self, _depth=1)
        return _pure(t_init)


def _pure(t):
    for s in subterms(t):
        if s[0] == 'mcall' and s[2] not in PURE_METHODS:
            return False
        if s[0] == 'call' and s[1] not in PURE_FUNCS:
            return False
        if s[0] in ('unknown', 'ctor', 'new', 'lambda'):
            return False
    return True


def term(n, env=None, _depth=0):
    n = strip(n)
    k = n.kind
    T = lambda x: term(x, env, _depth)
    if k == 'DeclRefExpr':
        if env is not None and n.refid in env.decl and _depth < 30:
            d = env.decl[n.refid]
            if n.refid not in env._cache:
                env._cache[n.refid] = None
                if env.inlinable(d):
                    env._cache[n.refid] = term(env.init_of(d), env, _depth + 1)
            if env._cache[n.refid] is not None:
                return env._cache[n.refid]
        return ('var', n.ref)
    if k in ('IntegerLiteral', 'FloatingLiteral', 'CXXBoolLiteralExpr', 'StringLiteral',
             'CharacterLiteral'):
        v = n.value
        if k == 'CXXBoolLiteralExpr':
            v = bool(v)
        elif k in ('IntegerLiteral', 'FloatingLiteral'):
            try:
                v = float(v)
                if v == int(v):
                    v = int(v)
            except (TypeError, ValueError):
                pass
        return ('lit', v)
    if k == 'CXXNullPtrLiteralExpr' or k == 'GNUNullExpr':
        return ('lit', None)
    if k == 'CXXThisExpr':
        return ('this',)
    if k == 'MemberExpr':
        base = T(n.kids[0]) if n.kids else ('this',)
        if base[0] == 'addr':
            base = base[1]
        elif base[0] == 'deref':
            base = base[1]
        return ('mem', base, n.name)
    if k == 'UnaryOperator':
        x = T(n.kids[0])
        if n.op == '&':
            return ('addr', x)
        if n.op == '*':
            if x[0] == 'addr':
                return x[1]
            return ('deref', x)
        if n.op == '-' and x[0] == 'lit' and isinstance(x[1], (int, float)):
            return ('lit', -x[1])
        if n.op == '+':
            return x
        return ('un', n.op, x)
    if k in ('BinaryOperator', 'CompoundAssignOperator'):
        return ('bin', n.op, T(n.kids[0]), T(n.kids[1]))
    if k == 'ConditionalOperator':
        return ('cond', T(n.kids[0]), T(n.kids[1]), T(n.kids[2]))
    if k == 'ArraySubscriptExpr':
        return ('idx', T(n.kids[0]), (T(n.kids[1]),))
    if k == 'CXXMemberCallExpr':
        callee = strip(n.kids[0])
        obj = T(callee.kids[0]) if callee.kids else ('this',)
        if obj[0] in ('addr', 'deref'):
            obj = obj[1]
        return ('mcall', obj, callee.name, tuple(T(a) for a in n.kids[1:]))
    if k == 'CXXOperatorCallExpr':
        callee = strip(n.kids[0])
        opname = callee.ref or ''
        args = [T(a) for a in n.kids[1:]]
        if opname == 'operator()':
            obj = args[0]
            if obj[0] == 'var' and env is not None:
                # a call of a local lambda
                for d in env.decl.values():
                    if d.name == obj[1] and (d.type or '').startswith('(lambda'):
                        return ('call', 'lambda:' + obj[1], tuple(args[1:]))
            return ('idx', obj, tuple(args[1:]))
        if opname == 'operator[]':
            return ('idx', args[0], tuple(args[1:]))
        if opname == 'operator*' and len(args) == 1:
            if args[0][0] == 'addr':
                return args[0][1]
            return ('deref', args[0])
        if opname == 'operator->' and len(args) == 1:
            return args[0]
        if opname.startswith('operator') and len(args) == 2:
            return ('bin', opname[len('operator'):], args[0], args[1])
        if opname.startswith('operator') and len(args) == 1:
            return ('un', opname[len('operator'):], args[0])
        return ('call', opname, tuple(args))
    if k == 'CallExpr':
        callee = strip(n.kids[0])
        name = callee.ref or callee.name or '?'
        return ('call', name, tuple(T(a) for a in n.kids[1:]))
    if k == 'InitListExpr':
        return ('init', tuple(T(a) for a in n.kids))
    if k == 'CXXConstructExpr' or k == 'CXXTemporaryObjectExpr':
        return ('ctor', n.type, tuple(T(a) for a in n.kids))
    if k == 'LambdaExpr':
        return ('lambda', n.line)
    if k == 'CXXNewExpr':
        return ('new', n.type)
    if k == 'CXXDefaultArgExpr':
        return ('default',)
    if k == 'ImplicitValueInitExpr':
        return ('lit', 0)
    if k == 'CXXScalarValueInitExpr':
        return ('lit', 0)
    return ('unknown', k)


def show(t):
    """Readable, canonical text of a term."""
    if not isinstance(t, tuple):
        return repr(t)
    k = t[0]
    if k == 'var':
        return t[1]
    if k == 'lit':
        return 'nullptr' if t[1] is None else str(t[1]).lower() if isinstance(t[1], bool) else str(t[1])
    if k == 'mem':
        return '%s.%s' % (show(t[1]), t[2])
    if k == 'addr':
        return '&' + show(t[1])
    if k == 'deref':
        return '*' + show(t[1])
    if k == 'call':
        return '%s(%s)' % (t[1], ', '.join(show(a) for a in t[2]))
    if k == 'mcall':
        return '%s.%s(%s)' % (show(t[1]), t[2], ', '.join(show(a) for a in t[3]))
    if k == 'idx':
        return '%s[%s]' % (show(t[1]), ', '.join(show(a) for a in t[2]))
    if k == 'bin':
        return '(%s %s %s)' % (show(t[2]), t[1], show(t[3]))
    if k == 'un':
        return '%s(%s)' % (t[1], show(t[2]))
    if k == 'cond':
        return '(%s ? %s : %s)' % (show(t[1]), show(t[2]), show(t[3]))
    if k == 'init':
        return '{%s}' % ', '.join(show(a) for a in t[1])
    if k == 'ctor':
        return '%s(%s)' % (t[1], ', '.join(show(a) for a in t[2]))
    if k == 'this':
        return 'this'
    return '<%s>' % ' '.join(str(x) for x in t)


def subst(t, mapping):
    """Replace sub-terms (keys of mapping) bottom-up."""
    if t in mapping:
        return mapping[t]
    if not isinstance(t, tuple):
        return t
    out = []
    for x in t:
        if isinstance(x, tuple) and x and isinstance(x[0], str):
            out.append(subst(x, mapping))
        elif isinstance(x, tuple):
            out.append(tuple(subst(y, mapping) for y in x))
        else:
            out.append(x)
    out = tuple(out)
    return mapping.get(out, out)


def subterms(t):
    if isinstance(t, tuple):
        if t and isinstance(t[0], str):
            yield t
        for x in t:
            if isinstance(x, tuple):
                for s in subterms(x):
                    yield s


def simplify_cond(t, facts):
    """Resolve ('cond', c, a, b) under known truth values `facts` (term -> bool)."""
    if not isinstance(t, tuple):
        return t
    if t and t[0] == 'cond':
        c = simplify_cond(t[1], facts)
        if c in facts:
            return simplify_cond(t[2] if facts[c] else t[3], facts)
        return ('cond', c, simplify_cond(t[2], facts), simplify_cond(t[3], facts))
    out = []
    for x in t:
        if isinstance(x, tuple) and x and isinstance(x[0], str):
            out.append(simplify_cond(x, facts))
        elif isinstance(x, tuple):
            out.append(tuple(simplify_cond(y, facts) for y in x))
        else:
            out.append(x)
    out = tuple(out)
    # &x followed by member access was normalised at build time; redo after choice
    return _renorm(out)


def _renorm(t):
    if isinstance(t, tuple) and t and t[0] == 'mem' and isinstance(t[1], tuple) and t[1][0] in ('addr', 'deref'):
        return ('mem', t[1][1], t[2])
    return t


def linear(t):
    """-> dict atom-text -> coefficient for a +/- expression (zero literals dropped)."""
    out = {}

    def add(x, sign):
        if x[0] == 'bin' and x[1] in ('+', '-'):
            add(x[2], sign)
            add(x[3], sign if x[1] == '+' else -sign)
        elif x[0] == 'un' and x[1] == '-':
            add(x[2], -sign)
        elif x[0] == 'lit' and isinstance(x[1], (int, float)) and not isinstance(x[1], bool):
            if x[1] != 0:
                out['#const'] = out.get('#const', 0) + sign * x[1]
        else:
            key = show(x)
            out[key] = out.get(key, 0) + sign
    add(t, 1)
    return {k: v for k, v in out.items() if v != 0}


def show_linear(lin):
    parts = []
    for k in sorted(lin):
        c = lin[k]
        if k == '#const':
            parts.append('%+g' % c)
        else:
            parts.append(('%+g*' % c if abs(c) != 1 else ('+' if c > 0 else '-')) + k)
    return ' '.join(parts) or '0'


# ---------------------------------------------------------------------------
# Statement context
# ---------------------------------------------------------------------------

def context(n, env, stop=None):
    """Enclosing control constructs of node n, outermost first.

    items: ('if', cond_term, polarity, node) | ('range', var, range_term, node) |
           ('for', node) | ('while', cond_term, node)"""
    out = []
    child = n
    for p in n.ancestors():
        if p is stop:
            break
        if p.kind == 'IfStmt':
            kids = [k for k in p.kids]
            # [cond, then, else?]  (clang may put an init/condvar first: rare, unsupported)
            cond, then = kids[0], kids[1]
            els = kids[2] if len(kids) > 2 else None
            if child is then:
                out.append(('if', term(cond, env), True, p))
            elif els is not None and child is els:
                out.append(('if', term(cond, env), False, p))
        elif p.kind == 'CXXForRangeStmt':
            body = p.kids[-1]
            if child is body:
                loopvar = p.kids[-2]
                vd = loopvar.find('VarDecl')[0]
                # range init: first DeclStmt with a VarDecl named __range*
                rng = None
                for d in p.find('VarDecl'):
                    if (d.name or '').startswith('__range'):
                        rng = term(env.init_of(d), env)
                        break
                out.append(('range', vd.name, rng, p))
        elif p.kind == 'ForStmt':
            if child is p.kids[-1]:
                out.append(('for', p))
        elif p.kind == 'WhileStmt':
            if child is p.kids[-1]:
                out.append(('while', term(p.kids[0], env), p))
        child = p
    out.reverse()
    return out


def for_parts(p):
    """ForStmt -> (init, cond, inc, body) nodes (clang: init, condvar, cond, inc, body)."""
    k = p.kids
    if len(k) != 5:
        raise AnalysisError('%s:%s unexpected for-statement layout' % (HEADER, p.line))
    return k[0], k[2], k[3], k[4]
