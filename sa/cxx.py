"""C++ front end: clang's type-resolved AST of depccg/parsing.h, as terms.

clang++ is used strictly as a parser (-fsyntax-only -ast-dump=json); nothing is
compiled to code or run.  On top of the JSON AST this module provides

* ``N`` -- a light node with wrappers (implicit casts, parens, temporaries,
  copy constructions) removed and source lines resolved;
* ``term(n, env)`` -- expressions as nested tuples with single-assignment
  scalar / pointer locals inlined;
* ``linear(t)`` -- float expressions as a multiset of signed atoms
  (commutative / associative normal form of + and -).
"""
import hashlib
import json
import os
import pickle
import subprocess
import tempfile

from .core import AnalysisError, VERIF

CLANG = os.environ.get('VERIF_CLANG', 'clang++-14')
HEADER = 'depccg/parsing.h'

_WRAPPERS = {'ImplicitCastExpr', 'ParenExpr', 'MaterializeTemporaryExpr',
             'CXXBindTemporaryExpr', 'ExprWithCleanups', 'ConstantExpr',
             'CXXFunctionalCastExpr', 'CStyleCastExpr', 'CXXStaticCastExpr'}


class N(object):
    __slots__ = ('refkind', 'storage', 'dtype', 'kind', 'name', 'type', 'op', 'value', 'ref', 'refid', 'reftype', 'arrow',
                 'kids', 'line', 'id', 'parent', 'raw_kind', 'init_style', 'is_postfix',
                 'has_else', 'cast')

    def __init__(self):
        self.kids = []
        self.parent = None

    def walk(self):
        yield self
        for k in self.kids:
            for x in k.walk():
                yield x

    def find(self, kind=None, pred=None):
        return [n for n in self.walk()
                if (kind is None or n.kind == kind) and (pred is None or pred(n))]

    def ancestors(self):
        p = self.parent
        while p is not None:
            yield p
            p = p.parent

    def __repr__(self):
        return '<%s %s L%s>' % (self.kind, self.name or self.op or self.ref or '', self.line)


class _LineTracker(object):
    def __init__(self):
        self.line = 0
        self.file = None

    def see(self, loc):
        if not isinstance(loc, dict):
            return
        for key in ('spellingLoc', 'expansionLoc'):
            if key in loc:
                self.see(loc[key])
        if 'file' in loc:
            self.file = loc['file']
        if 'line' in loc:
            self.line = loc['line']


def _convert(j, tracker, parent=None):
    tracker.see(j.get('loc'))
    rng = j.get('range') or {}
    tracker.see(rng.get('begin'))
    begin_line = tracker.line
    tracker.see(rng.get('end'))
    n = N()
    n.parent = parent
    n.kind = j.get('kind')
    n.raw_kind = n.kind
    n.name = j.get('name')
    if n.kind == 'CXXCtorInitializer' and isinstance(j.get('anyInit'), dict):
        n.name = j['anyInit'].get('name')
    t = j.get('type')
    n.type = t.get('qualType') if isinstance(t, dict) else None
    n.dtype = (t.get('desugaredQualType') or t.get('qualType')) if isinstance(t, dict) else None
    n.op = j.get('opcode')
    n.value = j.get('value')
    n.cast = j.get('castKind')
    n.storage = (j.get('storageClass') or '') + ('+tls' if j.get('tls') else '')
    rd = j.get('referencedDecl') or {}
    n.ref = rd.get('name')
    n.refid = rd.get('id')
    n.refkind = rd.get('kind')
    rt = rd.get('type')
    n.reftype = rt.get('qualType') if isinstance(rt, dict) else None
    if n.kind == 'MemberExpr':
        n.refid = j.get('referencedMemberDecl')
    n.arrow = bool(j.get('isArrow'))
    n.line = begin_line
    n.id = j.get('id')
    n.init_style = j.get('init')
    n.is_postfix = j.get('isPostfix')
    n.has_else = j.get('hasElse')
    if n.kind == 'CXXRecordDecl' and j.get('bases'):
        # the base classes of a record, kept in the (otherwise unused) type fields
        n.type = 'bases:' + ';'.join((b.get('type') or {}).get('qualType', '?') for b in j['bases'])
        n.dtype = 'bases:' + ';'.join((b.get('type') or {}).get('desugaredQualType') or (b.get('type') or {}).get('qualType', '?') for b in j['bases'])
    for c in j.get('inner', []) or []:
        if not c:           # clang prints {} for absent optional children
            k = N()
            k.kind = 'Null'
            k.raw_kind = 'Null'
            k.name = k.type = k.dtype = k.op = k.value = k.ref = k.refid = k.reftype = None
            k.arrow = False
            k.storage = ''
            k.refkind = None
            k.line = tracker.line
            k.id = None
            k.parent = n
            k.init_style = k.is_postfix = k.has_else = k.cast = None
            n.kids.append(k)
            continue
        n.kids.append(_convert(c, tracker, n))
    if n.kind == 'IfStmt' and j.get('hasVar') and n.kids and n.kids[0].kind == 'DeclStmt':
        # if (T *p = f(..)) S   reads   { T *p = f(..); if (p) S }   (the variable is not visible after S either way)
        decl = n.kids.pop(0)
        blk = N()
        blk.kind = blk.raw_kind = 'CompoundStmt'
        blk.name = blk.type = blk.dtype = blk.op = blk.value = blk.ref = blk.refid = blk.reftype = blk.refkind = None
        blk.arrow = False
        blk.storage = ''
        blk.line = n.line
        blk.id = None
        blk.init_style = blk.is_postfix = blk.has_else = blk.cast = None
        blk.parent = parent
        blk.kids = [decl, n]
        decl.parent = blk
        n.parent = blk
        return blk
    return n


def strip(n):
    """Look through value-preserving wrappers."""
    while True:
        if n.kind in _WRAPPERS and len(n.kids) == 1:
            n = n.kids[0]
        elif n.kind == 'CXXConstructExpr' and len(n.kids) == 1:
            n = n.kids[0]            # copy / move / converting construction
        elif n.kind == 'CXXDefaultArgExpr':
            return n
        else:
            return n


def _run_clang(repo_root, flt):
    with tempfile.TemporaryDirectory(prefix='verif-cxx-') as d:
        tu = os.path.join(d, 'tu.cpp')
        with open(tu, 'w') as f:
            f.write('#include <climits>\n#include "%s"\n' % HEADER)
        cmd = [CLANG, '-std=c++11', '-fsyntax-only', '-I', repo_root,
               '-Xclang', '-ast-dump=json', '-Xclang', '-ast-dump-filter=' + flt, tu]
        try:
            p = subprocess.run(cmd, stdout=subprocess.PIPE, stderr=subprocess.PIPE, timeout=120)
        except (OSError, subprocess.TimeoutExpired) as e:
            raise AnalysisError('clang front end failed to run: %s' % e)
        if p.returncode != 0:
            raise AnalysisError('clang cannot parse %s (the extension build would fail too): %s'
                                % (HEADER, p.stderr.decode('utf-8', 'replace')[-600:]))
        return p.stdout.decode('utf-8', 'replace')


def _split_docs(txt):
    dec = json.JSONDecoder()
    i, docs = 0, []
    while i < len(txt):
        while i < len(txt) and txt[i].isspace():
            i += 1
        if i >= len(txt):
            break
        o, j = dec.raw_decode(txt, i)
        docs.append(o)
        i = j
    return docs


def _toplevel_function_names(text):
    """names of functions defined in the header at file or namespace scope (not members, not statements)"""
    import re as _re
    text = _re.sub(r'//[^\n]*', '', text)
    text = _re.sub(r'/\*.*?\*/', '', text, flags=_re.S)
    names = set()
    stack = []
    last = 0
    for i, ch in enumerate(text):
        if ch == '{':
            head = text[last:i]
            head = head[max(head.rfind(';'), head.rfind('}')) + 1:].strip()
            at_ns = all(k == 'ns' for k in stack)
            if _re.match(r'(inline\s+)?namespace\b', head):
                stack.append('ns')
            else:
                m = _re.search(r'([A-Za-z_]\w*)\s*\([^()]*(?:\([^()]*\)[^()]*)*\)\s*(?:const\s*)?(?:noexcept\s*)?(?:->\s*[\w:<>\*&\s]+)?$', head)
                if at_ns and m and not _re.match(r'(struct|class|enum|union)\b', head) and m.group(1) not in ('if', 'for', 'while', 'switch', 'catch'):
                    names.add(m.group(1))
                stack.append('other')
            last = i + 1
        elif ch == '}':
            if stack:
                stack.pop()
            last = i + 1
        elif ch == ';':
            last = i + 1
    return names


GLOBAL_ENUMS = {}          # enumerator name -> value (set by load)
GLOBAL_CONSTANTS = {}      # name -> VarDecl of a named constant of the header (set by load)


FILTERS = ('parse_sentence', 'parsing::', 'combinator_result', 'config', 'utils::argmax')


def load(repo):
    """-> dict name -> N for the top-level declarations of interest.

    Cached under /verif/out keyed by the digest of the header text, the
    clang binary name and this file, so a changed header is always re-parsed.
    """
    text = repo.text(HEADER)
    with open(__file__, 'rb') as f:
        me = f.read()
    digest = hashlib.sha256(text.encode() + CLANG.encode() + me).hexdigest()[:24]
    cdir = os.path.join(VERIF, 'out', 'cache')
    cpath = os.path.join(cdir, 'cxx-%s.pkl' % digest)
    if os.path.exists(cpath):
        try:
            with open(cpath, 'rb') as f:
                decls = pickle.load(f)
            GLOBAL_CONSTANTS.clear()
            GLOBAL_CONSTANTS.update({k[6:]: v for k, v in decls.items() if k.startswith('const:')})
            GLOBAL_ENUMS.clear()
            GLOBAL_ENUMS.update(decls.get('enums:', {}))
            _install_member_aliases(decls)
            return decls
        except Exception:
            pass
    from concurrent.futures import ThreadPoolExecutor
    with ThreadPoolExecutor(len(FILTERS)) as ex:
        outs = list(ex.map(lambda flt: _run_clang(repo.root, flt), FILTERS))
    decls = {}
    for flt, out in zip(FILTERS, outs):
        for doc in _split_docs(out):
            tracker = _LineTracker()
            n = _convert(doc, tracker)
            name = n.name
            if name is None:
                continue
            if flt == 'config' and not (n.kind == 'CXXRecordDecl' and name == 'config'):
                continue
            if flt == 'combinator_result' and not (n.kind == 'CXXRecordDecl' and name == 'combinator_result'):
                continue
            if flt == 'utils::argmax':
                if n.kind != 'FunctionTemplateDecl':
                    continue
                inst = [k for k in n.kids if k.kind == 'FunctionDecl' and any(c.kind == 'TemplateArgument' for c in k.kids)]
                if inst:
                    decls['utils::argmax'] = inst[-1]
                continue
            # keep the definition (the one with a body / fields)
            if name not in decls or len(list(n.walk())) > len(list(decls[name].walk())):
                decls[name] = n
    # free helper functions defined in the header and called from parse_sentence (e.g. an extracted threshold helper)
    import re as _re
    known = set(decls) | {'argmax', 'scaffold', 'finalizer_callback'}
    called = set()
    defined = _toplevel_function_names(text)
    if 'parse_sentence' in decls:
        for n in decls['parse_sentence'].walk():
            if n.kind == 'DeclRefExpr' and n.refkind == 'FunctionDecl' and n.ref and not n.ref.startswith('operator') and n.ref in defined:
                if n.ref not in known:
                    called.add(n.ref)
                elif n.ref in decls and decls[n.ref].kind == 'FunctionDecl' and any(k.kind == 'CompoundStmt' for k in decls[n.ref].kids) \
                        and n.ref not in ('parse_sentence', 'compute_outside_probabilities'):
                    decls['fn:' + n.ref] = decls[n.ref]      # a helper at namespace scope, already captured by the namespace filter
    for name in sorted(called):
        for doc in _split_docs(_run_clang(repo.root, name)):
            n = _convert(doc, _LineTracker())
            if n.kind == 'FunctionDecl' and n.name == name and any(k.kind == 'CompoundStmt' for k in n.kids):
                decls['fn:' + name] = n
            elif n.kind == 'FunctionTemplateDecl' and n.name == name:
                # a function template: its instantiations all have the shape of the one definition; any of them is read
                inst = [k for k in n.kids if k.kind == 'FunctionDecl' and k.name == name and any(c.kind == 'TemplateArgument' for c in k.kids)
                        and any(c.kind == 'CompoundStmt' for c in k.kids)]
                if inst:
                    decls['fn:' + name] = inst[-1]
    # helpers called by helpers
    for _round in range(3):
        more = set()
        for key in [k for k in decls if k.startswith('fn:')]:
            for n in decls[key].walk():
                if n.kind == 'DeclRefExpr' and n.refkind == 'FunctionDecl' and n.ref and n.ref in defined and 'fn:' + n.ref not in decls \
                        and n.ref not in ('parse_sentence', 'compute_outside_probabilities') and not n.ref.startswith('operator'):
                    more.add(n.ref)
        if not more:
            break
        for name in sorted(more):
            if name in decls and decls[name].kind == 'FunctionDecl' and any(k.kind == 'CompoundStmt' for k in decls[name].kids):
                decls['fn:' + name] = decls[name]
                continue
            for doc in _split_docs(_run_clang(repo.root, name)):
                n = _convert(doc, _LineTracker())
                if n.kind == 'FunctionDecl' and n.name == name and any(k.kind == 'CompoundStmt' for k in n.kids):
                    decls['fn:' + name] = n
    # classes of the header used as types of locals in parse_sentence but declared outside namespace parsing
    if 'parse_sentence' in decls:
        wanted = set()
        for v in decls['parse_sentence'].find('VarDecl'):
            tname = (v.type or '').replace('const ', '').replace('struct ', '').replace('class ', '').strip(' &*')
            if _re.match(r'^[A-Za-z_]\w*$', tname) and tname not in decls and _re.search(r'\b(class|struct)\s+%s\b' % _re.escape(tname), text):
                wanted.add(tname)
            # ... or as element types of its containers (std::priority_queue<scored_category>)
            for tname in set(_re.findall(r'[A-Za-z_]\w*', (v.type or '') + ' ' + (v.dtype or ''))):
                if tname not in decls and tname not in ('std', 'parsing', 'const', 'struct', 'class', 'unsigned', 'float', 'int') \
                        and _re.search(r'\b(class|struct)\s+%s\s*(\{|:[^:])' % _re.escape(tname), text):
                    wanted.add(tname)
        for name in sorted(wanted):
            for doc in _split_docs(_run_clang(repo.root, name)):
                n = _convert(doc, _LineTracker())
                if n.kind == 'CXXRecordDecl' and n.name == name and any(k.kind in ('FieldDecl', 'CXXMethodDecl') for k in n.kids):
                    decls[name] = n
        # an ordering declared for such a record outside it: bool operator<(const S &, const S &)
        free_lt = [name for name in sorted(wanted) if name in decls
                   and _re.search(r'\boperator\s*<\s*\(\s*(const\s+)?(struct\s+)?%s\b' % _re.escape(name), text)]
        if free_lt:
            for doc in _split_docs(_run_clang(repo.root, 'operator<')):
                if doc.get('kind') != 'FunctionDecl' or doc.get('name') != 'operator<':
                    continue
                n = _convert(doc, _LineTracker())
                ps_ = [k for k in n.kids if k.kind == 'ParmVarDecl']
                for name in free_lt:
                    if len(ps_) == 2 and all(_re.search(r'\b%s\b' % _re.escape(name), p_.type or '') for p_ in ps_) \
                            and any(k.kind == 'CompoundStmt' for k in n.kids):
                        decls['lt:' + name] = n
    # named constants at file / namespace scope (`static const unsigned NO_CATEGORY = UINT_MAX;`): kept with their
    # initialisers so that a use reads like the value written out
    ctext = _re.sub(r'//[^\n]*', '', text)
    ctext = _re.sub(r'/\*.*?\*/', '', ctext, flags=_re.S)
    depth = 0
    scope = []
    buf = ''
    cnames = set()
    for ch in ctext:
        if ch == '{':
            head = buf[max(buf.rfind(';'), buf.rfind('}')) + 1:].strip()
            scope.append('ns' if _re.match(r'(inline\s+)?namespace\b', head) else 'other')
            buf = ''
        elif ch == '}':
            if scope:
                scope.pop()
            buf = ''
        elif ch == ';':
            if all(k == 'ns' for k in scope):
                mm = _re.match(r'\s*(?:static\s+|inline\s+)*(?:constexpr|const)\s+(?:static\s+)?[\w:<>\s\*]+?\b([A-Za-z_]\w*)\s*(?:=|\{)', buf, flags=_re.S)
                if mm and '(' not in buf.split('=')[0]:
                    cnames.add(mm.group(1))
            buf = ''
        else:
            buf += ch
    for name in sorted(cnames):
        for doc in _split_docs(_run_clang(repo.root, name)):
            n = _convert(doc, _LineTracker())
            if n.kind == 'VarDecl' and n.name == name and 'const' in (n.type or '') and any(k.kind not in ('Null',) and not k.kind.endswith('Attr') for k in n.kids):
                decls['const:' + name] = n
    # enumerators (plain enums: the names convert to their integer values)
    enums = {}
    for em in _re.finditer(r'\benum\s+(?:class\s+|struct\s+)?(?:[A-Za-z_]\w*\s*)?(?::\s*[\w\s]+)?\{([^{}]*)\}', ctext):
        nxt = 0
        okk = True
        vals = {}
        for part in em.group(1).split(','):
            part = part.strip()
            if not part:
                continue
            mm = _re.match(r'^([A-Za-z_]\w*)\s*(?:=\s*(-?\d+)[uUlL]*)?$', part)
            if not mm:
                okk = False
                break
            if mm.group(2) is not None:
                nxt = int(mm.group(2))
            vals[mm.group(1)] = nxt
            nxt += 1
        if okk:
            enums.update(vals)
    decls['enums:'] = enums
    for need in ('parse_sentence', 'cell_item', 'chart', 'matrix',
                 'compute_outside_probabilities', 'config', 'combinator_result', 'utils::argmax'):
        if need not in decls:
            raise AnalysisError('%s: declaration %r not found by clang' % (HEADER, need))
    _expand_value_helpers(decls)
    _inline_record_locals(decls)
    _counted_while_loops(decls)
    _tail_counted_while_loops(decls)
    _copy_and_adjust_items(decls)
    _grown_per_round_vectors(decls)
    try:
        os.makedirs(cdir, exist_ok=True)
        import sys
        sys.setrecursionlimit(20000)
        tmp = cpath + '.%d.tmp' % os.getpid()
        with open(tmp, 'wb') as f:
            pickle.dump(decls, f, protocol=pickle.HIGHEST_PROTOCOL)
        os.replace(tmp, cpath)
    except Exception:
        pass
    GLOBAL_CONSTANTS.clear()
    GLOBAL_CONSTANTS.update({k[6:]: v for k, v in decls.items() if k.startswith('const:')})
    GLOBAL_ENUMS.clear()
    GLOBAL_ENUMS.update(decls.get('enums:', {}))
    _install_member_aliases(decls)
    return decls


def clone(n, parent=None, sub=None):
    """structural copy of a subtree; `sub` maps the id of a parameter to the (argument) subtree its uses stand for"""
    if sub and n.kind == 'DeclRefExpr' and n.refid in sub:
        return clone(sub[n.refid], parent, None)
    c = N()
    for slot in N.__slots__:
        if slot in ('kids', 'parent'):
            continue
        try:
            setattr(c, slot, getattr(n, slot))
        except AttributeError:
            pass
    c.parent = parent
    c.kids = [clone(k, c, sub) for k in n.kids]
    return c


def _plain_place(n):
    """an argument that names a place without computing anything: x, x[i], x.m, *p, p->m with plain names inside"""
    n = strip(n)
    if n.kind == 'DeclRefExpr':
        return True
    if n.kind == 'MemberExpr':
        return not n.kids or _plain_place(n.kids[0])
    if n.kind == 'UnaryOperator' and n.op == '*':
        return _plain_place(n.kids[0])
    if n.kind == 'ArraySubscriptExpr':
        return all(_plain_place(k) for k in n.kids)
    if n.kind == 'CXXOperatorCallExpr' and n.kids and strip(n.kids[0]).ref == 'operator[]' and len(n.kids) == 3:
        return _plain_place(n.kids[1]) and _plain_place(n.kids[2])
    return False


def _blank(kind, **kw):
    n = N()
    n.kind = n.raw_kind = kind
    n.name = n.type = n.dtype = n.op = n.value = n.ref = n.refid = n.reftype = n.refkind = None
    n.arrow = False
    n.storage = ''
    n.line = 0
    n.id = None
    n.init_style = n.is_postfix = n.has_else = n.cast = None
    for k, v in kw.items():
        setattr(n, k, v)
    return n


def _grown_per_round_vectors(decls):
    """A vector local of parse_sentence that starts empty and gets exactly one element appended per round of a top-level
    loop over 0..n-1 (`v.emplace_back(..)` as a statement of the loop body itself, nowhere else) has, in round i, its last
    element at position i: `v.back()` after that statement reads as `v[i]` there.  (The per-word candidate queues built
    with room reserved: `scored.emplace_back(less, std::move(storage)); auto &ranking = scored.back();`.)  Only when the
    appended element starts empty: no arguments, or a comparator and a moved-in local vector that was only reserve()d."""
    ps = decls.get('parse_sentence')
    if ps is None:
        return
    bodies = [k for k in ps.kids if k.kind == 'CompoundStmt']
    if not bodies:
        return
    top = bodies[0]
    sized = {}
    for st in top.kids:
        if st.kind == 'DeclStmt':
            for vd in st.kids:
                if vd.kind == 'VarDecl' and 'vector<' in (vd.type or ''):
                    ctor = [k for k in vd.kids if k.kind in ('CXXConstructExpr', 'InitListExpr', 'ExprWithCleanups')]
                    has_args = any(k.kids for k in ctor)
                    sized[vd.name] = has_args
    grown = {}
    for n in ps.walk():
        if n.kind == 'CXXMemberCallExpr' and strip(n.kids[0]).name in ('emplace_back', 'push_back') and strip(n.kids[0]).kids:
            b = strip(strip(n.kids[0]).kids[0])
            if b.kind == 'DeclRefExpr' and b.ref in sized:
                grown.setdefault(b.ref, []).append(n)
    for name, calls in grown.items():
        if sized.get(name) or len(calls) != 1:
            continue
        call = calls[0]
        stmt = call
        loop = call.parent
        while loop is not None and loop.kind in ('ExprWithCleanups',):
            stmt = loop
            loop = loop.parent
        body = loop
        if body is None or body.kind != 'CompoundStmt' or body.parent is None or body.parent.kind != 'ForStmt' or body.parent.parent is not top:
            continue
        fs = body.parent
        init, cond, inc, fbody = for_parts(fs)
        vds = init.find('VarDecl') if init is not None else []
        if len(vds) != 1 or fbody is not body:
            continue
        iv = vds[0]
        lits = [x for x in iv.walk() if x.kind == 'IntegerLiteral']
        if len(lits) != 1 or str(lits[0].value) != '0':
            continue
        i_inc = strip(inc) if inc is not None else None
        if i_inc is None or i_inc.kind != 'UnaryOperator' or i_inc.op != '++' or strip(i_inc.kids[0]).ref != iv.name:
            continue
        if any(k.kind in ('ContinueStmt', 'BreakStmt') for k in body.walk() if not any(a.kind in ('ForStmt', 'WhileStmt', 'DoStmt', 'CXXForRangeStmt') and a is not fs for a in k.ancestors() if a in list(body.walk()))):
            continue
        # the element starts empty
        args = call.kids[1:]
        ok = True
        for a in args:
            r = strip(a)
            while r.kind in ('MaterializeTemporaryExpr', 'CXXBindTemporaryExpr', 'ExprWithCleanups', 'CXXFunctionalCastExpr', 'CXXConstructExpr') and len(r.kids) <= 1:
                if not r.kids:
                    break
                r = strip(r.kids[0])
            if r.kind in ('CXXTemporaryObjectExpr', 'CXXConstructExpr', 'CXXFunctionalCastExpr') and not r.kids:
                continue            # a default-constructed comparator
            if r.kind == 'CallExpr' and (strip(r.kids[0]).ref or '') in ('move', 'forward') and len(r.kids) == 2 and strip(r.kids[1]).kind == 'DeclRefExpr':
                src = strip(r.kids[1]).ref
                uses = [m for m in body.walk() if m.kind == 'CXXMemberCallExpr' and strip(n_kid(m)).kind == 'DeclRefExpr' and strip(n_kid(m)).ref == src]
                if all(strip(m.kids[0]).name == 'reserve' for m in uses) and any(d.kind == 'VarDecl' and d.name == src and not [k for k in d.kids if k.kids] for d in body.find('VarDecl')):
                    continue
            ok = False
        if not ok:
            continue
        idx = list(body.kids).index(stmt) if stmt in body.kids else None
        if idx is None:
            continue
        for later in body.kids[idx + 1:]:
            for m in list(later.walk()):
                if m.kind == 'CXXMemberCallExpr' and strip(m.kids[0]).name == 'back' and len(m.kids) == 1 and strip(m.kids[0]).kids \
                        and strip(strip(m.kids[0]).kids[0]).kind == 'DeclRefExpr' and strip(strip(m.kids[0]).kids[0]).ref == name:
                    base = strip(strip(m.kids[0]).kids[0])
                    sub = _blank('CXXOperatorCallExpr', type=m.type, line=m.line)
                    opref = _blank('DeclRefExpr', ref='operator[]', line=m.line)
                    ivref = _blank('DeclRefExpr', ref=iv.name, refid=iv.id, refkind='VarDecl', type=iv.type, line=m.line)
                    sub.kids = [opref, clone(base), ivref]
                    par = m.parent
                    for k_i, k in enumerate(par.kids):
                        if k is m:
                            par.kids[k_i] = sub
                    sub.parent = par
                    for k in sub.kids:
                        k.parent = sub


def n_kid(m):
    c = strip(m.kids[0])
    return c.kids[0] if c.kids else c


def _copy_and_adjust_items(decls):
    """An agenda item made as an adjusted copy of another one --

        cell_item parent = *item;  parent.cat = ..;  parent.left = item;  ..;  agenda.push(parent);

    -- is the item `{f1, f2, ..}` with, for every field of cell_item in declaration order, the value assigned to it or, for
    the fields left alone, that field of the item copied (`item->f`).  Only when the local is declared by copying `*p` (p a
    pointer to an item), the statements up to the push are plain `local.field = expr;` assignments that do not read the
    local, and the local is not used after the push."""
    ps = decls.get('parse_sentence')
    rec = decls.get('cell_item')
    if ps is None or rec is None:
        return
    fields = fields_of(rec)
    for blk in [b for b in ps.walk() if b.kind == 'CompoundStmt']:
        i = 0
        while i < len(blk.kids):
            st = blk.kids[i]
            i += 1
            if st.kind != 'DeclStmt' or len(st.kids) != 1 or st.kids[0].kind != 'VarDecl':
                continue
            vd = st.kids[0]
            if 'cell_item' not in (vd.type or '') or '*' in (vd.type or '') or '&' in (vd.type or ''):
                continue
            init = vd.kids[-1] if vd.kids else None
            src_ptr = None
            x = init
            while x is not None and x.kind in ('CXXConstructExpr', 'ImplicitCastExpr', 'MaterializeTemporaryExpr', 'ExprWithCleanups', 'ParenExpr') and x.kids:
                x = x.kids[0]
            if x is not None and x.kind == 'UnaryOperator' and x.op == '*' and x.kids:
                y = strip(x.kids[0])
                if y.kind == 'DeclRefExpr':
                    src_ptr = y
            if src_ptr is None:
                continue
            assigned = {}
            j = i
            ok = True
            while j < len(blk.kids):
                a = blk.kids[j]
                if a.kind == 'BinaryOperator' and a.op == '=' and strip(a.kids[0]).kind == 'MemberExpr' and not strip(a.kids[0]).arrow \
                        and strip(strip(a.kids[0]).kids[0]).kind == 'DeclRefExpr' and strip(strip(a.kids[0]).kids[0]).ref == vd.name:
                    f = strip(a.kids[0]).name
                    if f not in fields or any(r.kind == 'DeclRefExpr' and r.ref == vd.name for r in a.kids[1].walk()):
                        ok = False
                        break
                    assigned[f] = a.kids[1]
                    j += 1
                    continue
                break
            if not ok or j >= len(blk.kids):
                continue
            push = blk.kids[j]
            call = push
            if not (call.kind == 'CXXMemberCallExpr' and strip(call.kids[0]).name in ('push', 'emplace') and len(call.kids) == 2):
                continue
            arg = strip(call.kids[1])
            while arg.kind in ('CXXConstructExpr', 'MaterializeTemporaryExpr') and arg.kids:
                arg = strip(arg.kids[0])
            if not (arg.kind == 'DeclRefExpr' and arg.ref == vd.name):
                continue
            later = [r for k in blk.kids[j + 1:] for r in k.walk() if r.kind == 'DeclRefExpr' and r.ref == vd.name]
            if later:
                continue
            lst = _blank('InitListExpr', type=vd.type, line=push.line)
            for f in fields:
                if f in assigned:
                    lst.kids.append(clone(assigned[f]))
                else:
                    me = _blank('MemberExpr', name=f, arrow=True, line=push.line)
                    me.kids = [clone(src_ptr)]
                    lst.kids.append(me)
            tmp = _blank('MaterializeTemporaryExpr', type=vd.type, line=push.line)
            tmp.kids = [lst]
            call.kids[1] = tmp

            def adopt(n, parent):
                n.parent = parent
                for k in n.kids:
                    adopt(k, n)
            adopt(tmp, call)
            # the declaration and the adjustments are now part of the pushed value
            del blk.kids[i - 1:j]
            i = i - 1


def _tail_counted_while_loops(decls):
    """`unsigned n = 0; while (C) { BODY; n++; }` in any block of parse_sentence, with the counter declared by the statement
    just before the loop, incremented only by the last statement of the body, not written elsewhere, no `continue` that
    belongs to this loop (a continue would skip the increment; `break` is fine) and no use of the counter after the loop:
    the loop `for (unsigned n = 0; C; n++) { BODY }`."""
    ps = decls.get('parse_sentence')
    if ps is None:
        return
    for blk in [b for b in ps.walk() if b.kind == 'CompoundStmt']:
        for i, st in enumerate(list(blk.kids)):
            if st.kind != 'WhileStmt' or i == 0 or len(st.kids) != 2 or st.kids[1].kind != 'CompoundStmt' or len(st.kids[1].kids) < 2:
                continue
            prev = blk.kids[i - 1]
            if prev.kind != 'DeclStmt' or len(prev.kids) != 1 or prev.kids[0].kind != 'VarDecl':
                continue
            vd = prev.kids[0]
            lits = [x for x in vd.walk() if x.kind == 'IntegerLiteral']
            if len(lits) != 1 or ('int' not in (vd.type or '') and 'size_t' not in (vd.type or '')) or '&' in (vd.type or '') or '*' in (vd.type or ''):
                continue
            cond, body = st.kids
            last = strip(body.kids[-1])
            if not (last.kind == 'UnaryOperator' and last.op == '++' and strip(last.kids[0]).kind == 'DeclRefExpr' and strip(last.kids[0]).ref == vd.name):
                continue

            def own(n_):
                # statements of this loop, not of loops nested in it
                for k in n_.kids:
                    yield k
                    if k.kind not in ('ForStmt', 'WhileStmt', 'DoStmt', 'CXXForRangeStmt', 'LambdaExpr'):
                        for x in own(k):
                            yield x
            if any(k.kind == 'ContinueStmt' for k in own(body)):
                continue
            refs = [x for k in body.kids[:-1] for x in k.walk() if x.kind == 'DeclRefExpr' and x.ref == vd.name]
            writes = [x for x in refs if x.parent is not None and (x.parent.kind in ('CompoundAssignOperator',) or (x.parent.kind == 'UnaryOperator' and x.parent.op in ('++', '--'))
                                                                    or (x.parent.kind == 'BinaryOperator' and x.parent.op == '=' and x.parent.kids[0] is x))]
            after = [x for later in blk.kids[i + 1:] for x in later.walk() if x.kind == 'DeclRefExpr' and x.ref == vd.name]
            if writes or after:
                continue
            inc = _blank('UnaryOperator', op='++', is_postfix=True, line=last.line)
            inc.kids = [clone(strip(last.kids[0]))]
            nb = _blank('CompoundStmt', line=body.line)
            nb.kids = list(body.kids[:-1])
            loop = _blank('ForStmt', line=st.line)
            loop.kids = [clone(prev), _blank('Null'), cond, inc, nb]

            def adopt(n, parent):
                n.parent = parent
                for k in n.kids:
                    adopt(k, n)
            adopt(loop, blk)
            blk.kids[i] = loop
            blk.kids[i - 1] = _blank('NullStmt', line=prev.line)
            blk.kids[i - 1].parent = blk


def _counted_while_loops(decls):
    """A search loop written with a counter of its own --

        unsigned step = 0;
        while (C) { if (++step >= B) break; BODY }        (or `step++ >= B`, `step >= B` with `++step;` as the next statement)

    -- is the for loop `for (unsigned step = S; C && step < B; ++step) BODY` with S = 1 for the pre-increment test (the
    first iteration already compares 1 with the bound) and S = 0 otherwise, `<=` for a `>` test.  Only when the counter is
    declared by the statement just before the loop with a literal start, is not written anywhere else, and (for the forms
    where the body would see another value than in the for loop) is not read in BODY.  The rules for the loop guard then
    judge the budget as written: a pre-increment test against `>= max_step` leaves max_step - 1 steps."""
    ps = decls.get('parse_sentence')
    if ps is None:
        return
    bodies = [k for k in ps.kids if k.kind == 'CompoundStmt']
    if not bodies:
        return
    top = bodies[0]
    for i, st in enumerate(list(top.kids)):
        if st.kind != 'WhileStmt' or i == 0 or len(st.kids) != 2 or st.kids[1].kind != 'CompoundStmt' or not st.kids[1].kids:
            continue
        prev = top.kids[i - 1]
        if prev.kind != 'DeclStmt' or len(prev.kids) != 1 or prev.kids[0].kind != 'VarDecl':
            continue
        vd = prev.kids[0]
        lits = [x for x in vd.walk() if x.kind == 'IntegerLiteral']
        if len(lits) != 1 or 'int' not in (vd.type or '') and 'size_t' not in (vd.type or ''):
            continue
        cond, body = st.kids
        first = body.kids[0]
        if first.kind != 'IfStmt' or len(first.kids) != 2:
            continue
        then = first.kids[1]
        if not (then.kind == 'BreakStmt' or (then.kind == 'CompoundStmt' and len(then.kids) == 1 and then.kids[0].kind == 'BreakStmt')):
            continue
        test = strip(first.kids[0])
        if test.kind != 'BinaryOperator' or test.op not in ('>=', '>'):
            continue
        lhs, rhs = strip(test.kids[0]), test.kids[1]
        if any(x.kind == 'DeclRefExpr' and x.ref == vd.name for x in rhs.walk()):
            continue
        form = None
        rest = body.kids[1:]
        if lhs.kind == 'UnaryOperator' and lhs.op == '++' and strip(lhs.kids[0]).kind == 'DeclRefExpr' and strip(lhs.kids[0]).ref == vd.name:
            form = 'post' if lhs.is_postfix else 'pre'
        elif lhs.kind == 'DeclRefExpr' and lhs.ref == vd.name and rest:
            nx = strip(rest[0])
            if nx.kind == 'UnaryOperator' and nx.op == '++' and strip(nx.kids[0]).kind == 'DeclRefExpr' and strip(nx.kids[0]).ref == vd.name:
                form = 'sep'
                rest = rest[1:]
        if form is None:
            continue
        uses = [x for r_ in rest for x in r_.walk() if x.kind == 'DeclRefExpr' and x.ref == vd.name]
        uses += [x for x in cond.walk() if x.kind == 'DeclRefExpr' and x.ref == vd.name]
        after = [x for later in top.kids[i + 1:] for x in later.walk() if x.kind == 'DeclRefExpr' and x.ref == vd.name]
        writes = [x for x in uses if x.parent is not None and x.parent.kind in ('UnaryOperator', 'CompoundAssignOperator') or
                  (x.parent is not None and x.parent.kind == 'BinaryOperator' and x.parent.op == '=' and x.parent.kids[0] is x)]
        if writes or after or (form != 'pre' and uses):
            continue
        # the for statement
        init = clone(prev)
        if form == 'pre':
            for x in init.walk():
                if x.kind == 'IntegerLiteral':
                    try:
                        x.value = str(int(x.value) + 1)
                    except (TypeError, ValueError):
                        init = None
        if init is None:
            continue
        ref = clone(strip(lhs.kids[0]) if form in ('pre', 'post') else lhs)
        budget = _blank('BinaryOperator', op='<' if test.op == '>=' else '<=', type='bool', line=first.line)
        budget.kids = [ref, clone(rhs)]
        conj = _blank('BinaryOperator', op='&&', type='bool', line=st.line)
        conj.kids = [budget, clone(cond)]
        inc = _blank('UnaryOperator', op='++', is_postfix=False, line=first.line)
        inc.kids = [clone(ref)]
        nb = _blank('CompoundStmt', line=body.line)
        nb.kids = list(rest)
        loop = _blank('ForStmt', line=st.line)
        loop.kids = [init, _blank('Null'), conj, inc, nb]

        def adopt(n, parent):
            n.parent = parent
            for k in n.kids:
                adopt(k, n)
        adopt(loop, top)
        top.kids[i] = loop
        # the declaration now lives in the for statement
        top.kids[i - 1] = _blank('NullStmt', line=prev.line)
        top.kids[i - 1].parent = top


_CORE_RECORDS = ('chart', 'matrix', 'cell_item', 'config', 'cell', 'combinator_result')


def _inline_record_locals(decls):
    """`const C o(args);` at the top of parse_sentence, C a small class of the header whose constructor fills its members
    (initialiser list, then a body of plain statements) and whose other methods only return an expression of the members
    and their parameters: the object reads as the locals it groups.  Each member M becomes a local `o::M` initialised as
    the constructor initialises it (parameters standing for the arguments), the constructor body runs where the object
    is declared, o.method(a, ..) reads as the expression the method returns and o.M as the local.  Only when every use
    of o is such a call or member access, the arguments are plain values, and no method changes a member."""
    ps = decls.get('parse_sentence')
    if ps is None:
        return
    try:
        body = body_of(ps)
    except AnalysisError:
        return
    for st in list(body.kids):
        if st.kind != 'DeclStmt' or len(st.kids) != 1 or st.kids[0].kind != 'VarDecl':
            continue
        d = st.kids[0]
        cname = (d.type or '').replace('const ', '').replace('class ', '').replace('struct ', '').strip()
        cname = cname.split('::')[-1] if '<' not in cname else cname
        rec = decls.get(cname)
        if rec is None or rec.kind != 'CXXRecordDecl' or cname in _CORE_RECORDS:
            continue
        init = [k for k in d.kids if k.kind != 'Null' and not k.kind.endswith('Attr')]
        if len(init) != 1:
            continue
        ce = init[0]
        while ce.kind in ('ExprWithCleanups', 'CXXBindTemporaryExpr', 'MaterializeTemporaryExpr') and len(ce.kids) == 1:
            ce = ce.kids[0]
        if ce.kind != 'CXXConstructExpr':
            continue
        args = [a for a in ce.kids if a.kind != 'CXXDefaultArgExpr']
        if len(args) != len(ce.kids):
            continue
        ctors = [k for k in rec.kids if k.kind == 'CXXConstructorDecl' and any(c.kind == 'CompoundStmt' for c in k.kids)
                 and len(params_of(k)) == len(args)]
        if len(ctors) != 1:
            continue
        ct = ctors[0]
        fields = [k for k in rec.kids if k.kind == 'FieldDecl']
        fnames = {f.name for f in fields}
        if not fields:
            continue
        # the lookup-object and outside-table shapes have their own readers in the model
        cbody = body_of(ct)

        def plain_arg(a):
            a = strip(a)
            if a.kind == 'CallExpr' and a.kids and strip(a.kids[0]).ref in ('move', 'forward') and len(a.kids) == 2:
                return plain_arg(a.kids[1])
            if a.kind in ('IntegerLiteral', 'FloatingLiteral', 'CXXBoolLiteralExpr', 'CXXNullPtrLiteralExpr'):
                return True
            if a.kind in ('BinaryOperator',):
                return all(plain_arg(k) for k in a.kids)
            if a.kind == 'UnaryOperator' and a.op in ('*', '&', '-', '!'):
                return plain_arg(a.kids[0])
            return _plain_place(a)
        if not all(plain_arg(a) for a in args):
            continue
        # methods: { return E; } only, const or not, no write to a member
        methods = {}
        ok = True
        for k in rec.kids:
            if k.kind != 'CXXMethodDecl' or not any(c.kind == 'CompoundStmt' for c in k.kids) or (k.name or '').startswith('operator'):
                continue
            b = body_of(k)
            if len(b.kids) == 1 and b.kids[0].kind == 'ReturnStmt' and b.kids[0].kids:
                methods[k.name] = k
        # uses of o in parse_sentence
        uses = [n for n in ps.walk() if n.kind == 'DeclRefExpr' and n.ref == d.name and n.refkind in ('VarDecl', None) and (n.refid == d.id or n.refid is None)]
        sites = []
        for u in uses:
            par = u.parent
            while par is not None and par.kind in ('ImplicitCastExpr', 'ParenExpr') and len(par.kids) == 1:
                par = par.parent
            if par is None or par.kind != 'MemberExpr':
                ok = False
                break
            if par.name in fnames:
                sites.append(('field', par, None))
            elif par.name in methods and par.parent is not None and par.parent.kind == 'CXXMemberCallExpr' and par.parent.kids[0] is par:
                call = par.parent
                cargs = call.kids[1:]
                if len(cargs) != len(params_of(methods[par.name])) or not all(plain_arg(a) for a in cargs):
                    ok = False
                    break
                sites.append(('call', call, methods[par.name]))
            else:
                ok = False
                break
        if not ok or not uses:
            continue
        used_methods = {id(mth): mth for kind_, _, mth in sites if kind_ == 'call'}
        # no method used writes a member; the constructor and the methods call no other method of the object
        def this_member(n):
            return n.kind == 'MemberExpr' and n.kids and strip(n.kids[0]).kind == 'CXXThisExpr'
        for fn_ in list(used_methods.values()) + [ct]:
            for n in fn_.walk():
                if this_member(n) and n.name not in fnames:
                    ok = False
                if n.kind == 'CXXThisExpr' and not (n.parent is not None and (n.parent.kind == 'MemberExpr' or (
                        n.parent.kind == 'ImplicitCastExpr' and n.parent.parent is not None and n.parent.parent.kind == 'MemberExpr'))):
                    ok = False
                if n.kind == 'LambdaExpr':
                    ok = False
        for mth in used_methods.values():
            for n in mth.walk():
                if n.kind in ('BinaryOperator', 'CompoundAssignOperator') and n.op and n.op.endswith('=') and n.op not in ('==', '!=', '<=', '>='):
                    ok = False
                if n.kind == 'UnaryOperator' and n.op in ('++', '--'):
                    ok = False
        inits = {}
        for ini in [c for c in ct.kids if c.kind == 'CXXCtorInitializer']:
            if not ini.name or ini.name not in fnames:
                ok = False
                continue
            inits[ini.name] = ini
        if any(n.kind == 'ReturnStmt' for n in cbody.walk()):
            ok = False
        if not ok:
            continue
        # an object whose constructor neither computes anything in its body nor owns a table of its own is left to the
        # readers of the model (rule lookup objects, plain records)
        owns_table = any('matrix' in (f.type or '') for f in fields)
        if not cbody.kids and not owns_table:
            continue
        prefix = d.name + '::'
        sub = {p_.id: a for p_, a in zip(params_of(ct), args)}
        # a vector member that is the caller's vector moved / copied in is that vector (when the caller does not use its
        # own afterwards and the class never writes to the member)
        alias = {}

        def through(n_):
            n_ = strip(n_)
            while True:
                if n_.kind == 'CallExpr' and n_.kids and strip(n_.kids[0]).ref in ('move', 'forward') and len(n_.kids) == 2:
                    n_ = strip(n_.kids[1])
                elif n_.kind == 'CXXConstructExpr' and len(n_.kids) == 1 and 'vector' in (n_.type or ''):
                    n_ = strip(n_.kids[0])
                else:
                    return n_
        written = set()
        for fn_ in list(used_methods.values()) + [ct]:
            for n_ in fn_.walk():
                tg_ = None
                if n_.kind in ('BinaryOperator', 'CompoundAssignOperator') and n_.op and n_.op.endswith('=') and n_.op not in ('==', '!=', '<=', '>='):
                    tg_ = n_.kids[0]
                elif n_.kind == 'CXXOperatorCallExpr' and n_.kids and strip(n_.kids[0]).ref in ('operator=', 'operator+=', 'operator-=') and len(n_.kids) > 1:
                    tg_ = n_.kids[1]
                elif n_.kind == 'CXXMemberCallExpr' and strip(n_.kids[0]).name in ('push_back', 'emplace_back', 'resize', 'clear', 'assign', 'pop_back', 'swap', 'insert', 'erase'):
                    tg_ = strip(n_.kids[0]).kids[0] if strip(n_.kids[0]).kids else None
                if tg_ is not None:
                    for y in tg_.walk():
                        if this_member(y):
                            written.add(y.name)
        after = False
        later_refs = {}
        for s2 in body.kids:
            if s2 is st:
                after = True
                continue
            if after:
                for y in s2.walk():
                    if y.kind == 'DeclRefExpr' and y.ref:
                        later_refs[y.ref] = later_refs.get(y.ref, 0) + 1
        for f in fields:
            ini = inits.get(f.name)
            if ini is None or not ini.kids or 'vector' not in (f.type or '') or f.name in written:
                continue
            e_ = through(ini.kids[0])
            if e_.kind == 'DeclRefExpr' and e_.refid in sub:
                a_ = through(sub[e_.refid])
                if a_.kind == 'DeclRefExpr' and a_.refkind == 'VarDecl' and not later_refs.get(a_.ref):
                    alias[f.name] = a_
        # v.size() of a vector of the caller that is created with the sentence length and never resized is that length
        sized = {}
        for s2 in body.kids:
            if s2.kind == 'DeclStmt':
                for v_ in s2.kids:
                    if v_.kind == 'VarDecl' and 'vector' in (v_.type or ''):
                        i_ = [k for k in v_.kids if k.kind != 'Null' and not k.kind.endswith('Attr')]
                        c_ = i_[0] if i_ else None
                        while c_ is not None and c_.kind in ('ExprWithCleanups', 'CXXBindTemporaryExpr') and len(c_.kids) == 1:
                            c_ = c_.kids[0]
                        if c_ is not None and c_.kind == 'CXXConstructExpr' and len(c_.kids) >= 1 and strip(c_.kids[0]).kind == 'DeclRefExpr' \
                                and strip(c_.kids[0]).refkind == 'ParmVarDecl' and 'unsigned' in (strip(c_.kids[0]).type or ''):
                            sized[v_.name] = strip(c_.kids[0])
        for n_ in ps.walk():
            if n_.kind == 'CXXMemberCallExpr' and strip(n_.kids[0]).name in ('push_back', 'emplace_back', 'resize', 'clear', 'assign', 'pop_back', 'swap', 'insert', 'erase') \
                    and strip(n_.kids[0]).kids and strip(strip(n_.kids[0]).kids[0]).ref in sized:
                sized.pop(strip(strip(n_.kids[0]).kids[0]).ref, None)

        def rewrite(n, parent, sub):
            """clone with: parameters -> arguments, this->M -> local o::M, ids of locals prefixed"""
            if n.kind == 'DeclRefExpr' and n.refid in sub:
                a = sub[n.refid]
                a_ = strip(a)
                if a_.kind == 'CallExpr' and a_.kids and strip(a_.kids[0]).ref in ('move', 'forward') and len(a_.kids) == 2:
                    a = a_.kids[1]
                return clone(a, parent, None)
            if this_member(n) and n.name in alias:
                return clone(alias[n.name], parent, None)
            if n.kind == 'CXXMemberCallExpr' and len(n.kids) == 1 and strip(n.kids[0]).kind == 'MemberExpr' and strip(n.kids[0]).name == 'size' and strip(n.kids[0]).kids:
                b_ = strip(strip(n.kids[0]).kids[0])
                if b_.kind == 'DeclRefExpr' and b_.refid in sub:
                    b_ = through(sub[b_.refid])
                elif this_member(b_) and b_.name in alias:
                    b_ = alias[b_.name]
                if b_.kind == 'DeclRefExpr' and b_.ref in sized:
                    return clone(sized[b_.ref], parent, None)
            if this_member(n):
                f = [f_ for f_ in fields if f_.name == n.name][0]
                return _blank('DeclRefExpr', ref=prefix + n.name, refid=prefix + n.name, refkind='VarDecl', type=f.type, dtype=f.dtype,
                              reftype=f.type, line=n.line, parent=parent)
            c = N()
            for slot in N.__slots__:
                if slot in ('kids', 'parent'):
                    continue
                try:
                    setattr(c, slot, getattr(n, slot))
                except AttributeError:
                    pass
            if c.kind in ('VarDecl',) and c.id:
                c.id = prefix + str(c.id)
            if c.kind == 'DeclRefExpr' and c.refid and c.refkind == 'VarDecl' and str(c.refid) in local_ids:
                c.refid = prefix + str(c.refid)
            c.parent = parent
            c.kids = [rewrite(k, c, sub) for k in n.kids]
            return c
        local_ids = {str(n.id) for fn_ in list(used_methods.values()) + [ct] for n in fn_.walk() if n.kind == 'VarDecl' and n.id}
        new_stmts = []
        for f in fields:
            if f.name in alias:
                continue
            v = _blank('VarDecl', name=prefix + f.name, id=prefix + f.name, line=d.line, init_style='call')
            t_ = (f.type or '').replace('const ', '').strip()
            v.type = ('parsing::' + t_) if t_ in decls and t_ in _CORE_RECORDS else f.type
            v.dtype = f.dtype
            ini = inits.get(f.name)
            src_ = None
            if ini is not None and ini.kids:
                src_ = ini.kids[0]
                if src_.kind == 'CXXDefaultInitExpr':
                    fi = [k for k in f.kids if k.kind != 'Null' and not k.kind.endswith('Attr')]
                    src_ = fi[0] if fi else None
            elif ini is None:
                fi = [k for k in f.kids if k.kind != 'Null' and not k.kind.endswith('Attr')]
                src_ = fi[0] if fi else None
            if src_ is not None:
                v.kids = [rewrite(src_, v, sub)]
            ds = _blank('DeclStmt', line=d.line, parent=body)
            v.parent = ds
            ds.kids = [v]
            new_stmts.append(ds)
        for s_ in cbody.kids:
            c_ = rewrite(s_, body, sub)
            for y in c_.walk():
                y.line = d.line
            new_stmts.append(c_)
        i = body.kids.index(st)
        body.kids[i:i + 1] = new_stmts
        for kind_, node, mth in sites:
            if kind_ == 'field' and node.name in alias:
                rep_ = clone(alias[node.name], node.parent, None)
                node.parent.kids[node.parent.kids.index(node)] = rep_
            elif kind_ == 'field':
                f = [f_ for f_ in fields if f_.name == node.name][0]
                rep_ = _blank('DeclRefExpr', ref=prefix + node.name, refid=prefix + node.name, refkind='VarDecl', type=f.type, dtype=f.dtype,
                              reftype=f.type, line=node.line, parent=node.parent)
                node.parent.kids[node.parent.kids.index(node)] = rep_
            else:
                msub = {p_.id: a for p_, a in zip(params_of(mth), node.kids[1:])}
                e = body_of(mth).kids[0].kids[0]
                rep_ = rewrite(e, node.parent, msub)
                wrap = _blank('ParenExpr', type=node.type, dtype=node.dtype, line=node.line, parent=node.parent)
                rep_.parent = wrap
                wrap.kids = [rep_]
                for y in wrap.walk():
                    y.line = node.line
                node.parent.kids[node.parent.kids.index(node)] = wrap


def _expand_value_helpers(decls):
    """`T x = helper(place, ..);` where the helper of the header is `{ T v = E; S..; return v; }` with plain expression
    statements S reads `T x = E; S..;` at the call site, the reference parameters standing for the places handed in
    (utils::pop_top(queue): `auto top = queue.top(); queue.pop(); return top;`)."""
    ps = decls.get('parse_sentence')
    if ps is None:
        return
    shapes = {}
    for key, fn in decls.items():
        if not key.startswith('fn:'):
            continue
        body = [k for k in fn.kids if k.kind == 'CompoundStmt']
        if not body or len(body[0].kids) < 3:
            continue
        st = body[0].kids
        first, last = st[0], st[-1]
        if not (first.kind == 'DeclStmt' and len(first.kids) == 1 and first.kids[0].kind == 'VarDecl' and last.kind == 'ReturnStmt' and last.kids):
            continue
        v = first.kids[0]
        r = strip(last.kids[0])
        while r.kind in ('CXXConstructExpr', 'ImplicitCastExpr', 'ExprWithCleanups', 'MaterializeTemporaryExpr', 'CXXBindTemporaryExpr') and len(r.kids) == 1:
            r = strip(r.kids[0])
        if not (r.kind == 'DeclRefExpr' and r.refid == v.id):
            continue
        mid = st[1:-1]
        if any(m.kind in ('DeclStmt', 'ReturnStmt', 'IfStmt', 'ForStmt', 'WhileStmt', 'DoStmt', 'SwitchStmt', 'CXXForRangeStmt', 'CXXTryStmt', 'CompoundStmt',
                          'BreakStmt', 'ContinueStmt', 'GotoStmt', 'LabelStmt', 'CXXThrowExpr') for m in mid):
            continue
        if any(x.kind == 'DeclRefExpr' and x.refid == v.id for m in mid for x in m.walk()):
            continue            # the statements between use the value itself
        init = [k for k in v.kids if k.kind not in ('Null',) and not k.kind.endswith('Attr')]
        if len(init) != 1:
            continue
        params = [p_ for p_ in fn.kids if p_.kind == 'ParmVarDecl']
        if not params or not all('&' in (p_.type or '') for p_ in params):
            continue
        shapes[key[3:]] = (params, init[0], mid)
    if not shapes:
        return
    for blk in [n for n in ps.walk() if n.kind == 'CompoundStmt']:
        i = 0
        while i < len(blk.kids):
            st = blk.kids[i]
            i += 1
            if not (st.kind == 'DeclStmt' and len(st.kids) == 1 and st.kids[0].kind == 'VarDecl'):
                continue
            d = st.kids[0]
            init = [k for k in d.kids if k.kind not in ('Null',) and not k.kind.endswith('Attr')]
            if len(init) != 1:
                continue
            c = init[0]
            while c.kind in ('CXXConstructExpr', 'ImplicitCastExpr', 'ExprWithCleanups', 'MaterializeTemporaryExpr', 'CXXBindTemporaryExpr', 'CXXFunctionalCastExpr') and len(c.kids) == 1:
                c = c.kids[0]
            if c.kind != 'CallExpr' or not c.kids:
                continue
            callee = strip(c.kids[0])
            if not (callee.kind == 'DeclRefExpr' and callee.ref in shapes):
                continue
            params, e, mid = shapes[callee.ref]
            args = c.kids[1:]
            if len(args) != len(params) or not all(_plain_place(a) for a in args):
                continue
            sub = {p_.id: a for p_, a in zip(params, args)}
            new_init = clone(e, d, sub)
            d.kids[d.kids.index(init[0])] = new_init
            extra = [clone(m, blk, sub) for m in mid]
            for x in extra:
                for y in x.walk():
                    y.line = st.line
            blk.kids[i:i] = extra
            i += len(extra)


RECORD_FIELDS = {}      # record name -> field names in declaration order (all records of the header that were loaded)
MEMBER_ALIAS = {}       # (record, member) -> the name its reads are spelt with ('first' / 'second' of a pair-like record)
PAIR_RECORDS = {}       # record name -> (first field, second field)
RECORD_METHODS = {}     # (record name, method) -> term of its one return expression over ('mem', ('this',), field), for parameterless methods


def _install_member_aliases(decls):
    """A record with exactly two data members, constructed from two values in member order (aggregate, or a constructor
    whose initialisers copy its parameters into the members in that order) is a pair under another name: its members
    read as .first / .second, so that the rules written for std::pair<float, category> apply.  (How such a record is
    ordered is judged separately, from its operator<.)"""
    MEMBER_ALIAS.clear()
    PAIR_RECORDS.clear()
    RECORD_FIELDS.clear()
    RECORD_METHODS.clear()
    for name_, rec_ in decls.items():
        if isinstance(rec_, N) and rec_.kind == 'CXXRecordDecl' and ':' not in name_:
            RECORD_FIELDS[name_] = [k.name for k in rec_.kids if k.kind == 'FieldDecl']
            for m_ in rec_.kids:
                if m_.kind == 'CXXMethodDecl' and not [p_ for p_ in m_.kids if p_.kind == 'ParmVarDecl']:
                    body_ = [c for c in m_.kids if c.kind == 'CompoundStmt']
                    if len(body_) == 1 and len(body_[0].kids) == 1 and body_[0].kids[0].kind == 'ReturnStmt' and body_[0].kids[0].kids:
                        try:
                            RECORD_METHODS[(name_, m_.name)] = term(body_[0].kids[0].kids[0], None)
                        except Exception:
                            pass
    for name, rec in decls.items():
        if not isinstance(rec, N) or rec.kind != 'CXXRecordDecl' or ':' in name or name in ('cell_item', 'config', 'combinator_result', 'chart', 'matrix', 'cell'):
            continue
        flds = [k for k in rec.kids if k.kind == 'FieldDecl']
        if len(flds) != 2 or 'float' not in (flds[0].type or '') and 'double' not in (flds[0].type or ''):
            continue
        ctors = [k for k in rec.kids if k.kind == 'CXXConstructorDecl' and len([p_ for p_ in k.kids if p_.kind == 'ParmVarDecl']) == 2
                 and any(c.kind == 'CXXCtorInitializer' for c in k.kids)]
        def _compiler_made(k):
            # the copy / move constructors and an empty default constructor, as the compiler defines them when they are used
            ps_ = [p_ for p_ in k.kids if p_.kind == 'ParmVarDecl']
            body_ = [c for c in k.kids if c.kind == 'CompoundStmt']
            if len(ps_) == 1 and (ps_[0].type or '').replace(' ', '') in ('const%s&' % name, '%s&&' % name):
                return True
            return not ps_ and all(not b_.kids for b_ in body_)
        user_ctors = [k for k in rec.kids if k.kind == 'CXXConstructorDecl' and any(c.kind == 'CompoundStmt' for c in k.kids) and not _compiler_made(k)]
        ok = not user_ctors
        for c_ in ctors:
            ps_ = [p_.name for p_ in c_.kids if p_.kind == 'ParmVarDecl']
            inits = [i_ for i_ in c_.kids if i_.kind == 'CXXCtorInitializer']
            got = []
            for i_ in inits:
                refs = [x.ref for x in i_.walk() if x.kind == 'DeclRefExpr']
                got.append((i_.name, refs))
            ok = [g[0] for g in got] == [flds[0].name, flds[1].name] and [g[1] for g in got] == [[ps_[0]], [ps_[1]]]
            body_ = [k for k in c_.kids if k.kind == 'CompoundStmt']
            ok = ok and all(not b_.kids for b_ in body_)
        if not ok:
            continue
        MEMBER_ALIAS[(name, flds[0].name)] = 'first'
        MEMBER_ALIAS[(name, flds[1].name)] = 'second'
        PAIR_RECORDS[name] = (flds[0].name, flds[1].name)


# ---------------------------------------------------------------------------
# Records
# ---------------------------------------------------------------------------

def fields_of(record):
    return [k.name for k in record.kids if k.kind == 'FieldDecl']


def method(record, name, all_=False):
    out = [k for k in record.kids if k.kind in ('CXXMethodDecl', 'CXXConstructorDecl')
           and k.name == name and any(c.kind == 'CompoundStmt' for c in k.kids)]
    if all_:
        return out
    if not out:
        raise AnalysisError('%s: method %r of %s not found' % (HEADER, name, record.name))
    return out[0]


def body_of(fn):
    for k in fn.kids:
        if k.kind == 'CompoundStmt':
            return k
    raise AnalysisError('%s: %s has no body' % (HEADER, fn.name))


def params_of(fn):
    return [k for k in fn.kids if k.kind == 'ParmVarDecl']


# ---------------------------------------------------------------------------
# Terms
# ---------------------------------------------------------------------------
# ('var', name) ('lit', v) ('mem', base, field) ('addr', x) ('deref', x)
# ('call', fname, (args)) ('mcall', obj, method, (args)) ('idx', obj, (args))
# ('bin', op, l, r) ('un', op, x) ('cond', c, a, b) ('init', (items))
# ('this',) ('lambda', line) ('new', type) ('unknown', kind)

# methods whose value cannot change between a local's definition and its use in
# this header (reads of containers that are popped/pushed -- top, size, front --
# are deliberately absent: a local holding such a value is kept as a variable)
PURE_METHODS = {'count', 'argmax', 'score', 'end_of_span', 'at', 'contains'}
PURE_FUNCS = {'exp', 'log', 'expf', 'logf', 'lowest', 'max', 'min', 'argmax'}


class Env(object):
    """Single-assignment scalar/pointer locals of one function, for inlining."""

    def __init__(self, fn):
        self.fn = fn
        self.decl = {}      # decl id -> VarDecl node
        self.mutated = set()
        self.alias_inline = False   # inline reference-typed locals as aliases (enabled for parse_sentence)
        self.lambdas = {}   # local name -> (params, call-operator method node)
        self.functions = {}  # free helper functions by name -> FunctionDecl (filled by the model)
        for n in fn.walk():
            if n.kind in ('VarDecl', 'ParmVarDecl') and n.id:
                self.decl[n.id] = n
            if n.kind == 'VarDecl' and (n.type or '').startswith('(lambda'):
                lam = n.find('LambdaExpr')
                if lam:
                    ops = [k for k in lam[0].walk() if k.kind == 'CXXMethodDecl' and k.name == 'operator()']
                    if ops:
                        self.lambdas[n.name] = ops[0]
        for n in fn.walk():
            tgt = None
            if n.kind in ('BinaryOperator', 'CompoundAssignOperator') and n.op and \
                    (n.op == '=' or (n.op.endswith('=') and n.op not in ('==', '!=', '<=', '>='))):
                tgt = strip(n.kids[0])
            elif n.kind == 'UnaryOperator' and n.op in ('++', '--'):
                tgt = strip(n.kids[0])
            elif n.kind == 'CXXOperatorCallExpr' and n.kids and strip(n.kids[0]).ref in (
                    'operator=', 'operator+=', 'operator-=', 'operator++', 'operator--'):
                tgt = strip(n.kids[1]) if len(n.kids) > 1 else None
            if tgt is not None and tgt.kind == 'DeclRefExpr' and tgt.refid:
                self.mutated.add(tgt.refid)
            if n.kind == 'UnaryOperator' and n.op == '&':
                a = strip(n.kids[0])        # address taken: may be written through the pointer
                if a.kind == 'DeclRefExpr' and a.refid:
                    self.mutated.add(a.refid)
            if n.kind == 'CallExpr' and n.kids and strip(n.kids[0]).ref in ('swap', 'iter_swap', 'exchange'):
                # std::swap(a, b): both operands are written
                for a_ in n.kids[1:]:
                    a = a_
                    while a.kind in _WRAPPERS and len(a.kids) == 1 and a.cast != 'LValueToRValue':
                        a = a.kids[0]
                    if a.kind == 'DeclRefExpr' and a.refid:
                        self.mutated.add(a.refid)
        self._cache = {}
        self._ifelse = {}
        for n in fn.walk():
            if n.kind != 'CompoundStmt':
                continue
            kids = n.kids
            for i, st in enumerate(kids[:-1]):
                if st.kind != 'DeclStmt':
                    continue
                for d in st.kids:
                    if d.kind == 'VarDecl' and self.init_of(d) is None and i + 1 < len(kids) and kids[i + 1].kind == 'IfStmt' and len(kids[i + 1].kids) == 3:
                        iff = kids[i + 1]

                        def single_assign(b):
                            b = b.kids[0] if b.kind == 'CompoundStmt' and len(b.kids) == 1 else b
                            b = strip(b)
                            if b.kind == 'BinaryOperator' and b.op == '=' and strip(b.kids[0]).kind == 'DeclRefExpr' and strip(b.kids[0]).refid == d.id:
                                return b.kids[1]
                            return None
                        a, b = single_assign(iff.kids[1]), single_assign(iff.kids[2])
                        others = [x for x in fn.walk() if x.kind in ('BinaryOperator', 'CompoundAssignOperator') and x.op and x.op.endswith('=') and x.op not in ('==', '!=', '<=', '>=')
                                  and strip(x.kids[0]).kind == 'DeclRefExpr' and strip(x.kids[0]).refid == d.id]
                        if a is not None and b is not None and len(others) == 2:
                            self._ifelse[d.id] = (iff.kids[0], a, b)
                    # T v = A; if (c) v = B;   (a default that one condition overrides)
                    if d.kind == 'VarDecl' and self.init_of(d) is not None and i + 1 < len(kids) and kids[i + 1].kind == 'IfStmt' and len(kids[i + 1].kids) == 2:
                        iff = kids[i + 1]
                        b_ = iff.kids[1]
                        b_ = b_.kids[0] if b_.kind == 'CompoundStmt' and len(b_.kids) == 1 else b_
                        b_ = strip(b_)
                        if b_.kind == 'BinaryOperator' and b_.op == '=' and strip(b_.kids[0]).kind == 'DeclRefExpr' and strip(b_.kids[0]).refid == d.id:
                            others = [x for x in fn.walk() if x.kind in ('BinaryOperator', 'CompoundAssignOperator') and x.op and x.op.endswith('=') and x.op not in ('==', '!=', '<=', '>=')
                                      and strip(x.kids[0]).kind == 'DeclRefExpr' and strip(x.kids[0]).refid == d.id]
                            reads_self = any(x.kind == 'DeclRefExpr' and x.refid == d.id for x in list(iff.kids[0].walk()) + list(b_.kids[1].walk()))
                            if len(others) == 1 and not reads_self:
                                self._ifelse[d.id] = (iff.kids[0], b_.kids[1], self.init_of(d))

        # T *a = A, *b = B;  if (c) std::swap(a, b);   -- a is (c ? B : A), b is (c ? A : B)
        for n in fn.walk():
            if n.kind != 'CompoundStmt':
                continue
            kids = n.kids
            for i, st in enumerate(kids[:-1]):
                if st.kind != 'DeclStmt':
                    continue
                nxt = kids[i + 1]
                if nxt.kind != 'IfStmt' or len(nxt.kids) != 2:
                    continue
                b_ = nxt.kids[1]
                b_ = b_.kids[0] if b_.kind == 'CompoundStmt' and len(b_.kids) == 1 else b_
                b_ = strip(b_)
                if not (b_.kind == 'CallExpr' and b_.kids and strip(b_.kids[0]).ref == 'swap' and len(b_.kids) == 3):
                    continue
                ops = [strip(x) for x in b_.kids[1:]]
                if not all(o.kind == 'DeclRefExpr' and o.refid in self.decl for o in ops):
                    continue
                da, db = self.decl[ops[0].refid], self.decl[ops[1].refid]
                declared_here = [d for s_ in kids[:i + 1] if s_.kind == 'DeclStmt' for d in s_.kids]
                if da not in declared_here or db not in declared_here or self.init_of(da) is None or self.init_of(db) is None or da is db:
                    continue
                others = []
                for x in fn.walk():
                    if x is b_ or x in list(b_.walk()):
                        continue
                    tgt_ = None
                    if x.kind in ('BinaryOperator', 'CompoundAssignOperator') and x.op and x.op.endswith('=') and x.op not in ('==', '!=', '<=', '>='):
                        tgt_ = strip(x.kids[0])
                    elif x.kind == 'UnaryOperator' and x.op in ('++', '--', '&'):
                        tgt_ = strip(x.kids[0])
                    elif x.kind == 'CallExpr' and x.kids and strip(x.kids[0]).ref in ('swap', 'iter_swap', 'exchange'):
                        others.extend(strip(y) for y in x.kids[1:])
                    if tgt_ is not None:
                        others.append(tgt_)
                if any(o.kind == 'DeclRefExpr' and o.refid in (da.id, db.id) for o in others):
                    continue
                self._ifelse[da.id] = (nxt.kids[0], self.init_of(db), self.init_of(da))
                self._ifelse[db.id] = (nxt.kids[0], self.init_of(da), self.init_of(db))
        # T *a, *b; std::tie(a, b) = f(..);  -- a and b are the two components of what f returns
        self._tie = {}
        for n in fn.walk():
            if n.kind != 'CXXOperatorCallExpr' or len(n.kids) != 3 or strip(n.kids[0]).ref != 'operator=':
                continue
            lhs = strip(n.kids[1])
            if lhs.kind != 'CallExpr' or strip(lhs.kids[0]).ref != 'tie':
                continue
            tg = [strip(a) for a in lhs.kids[1:]]
            if len(tg) != 2 or not all(a.kind == 'DeclRefExpr' and a.refid in self.decl for a in tg):
                continue
            for i_, a in enumerate(tg):
                d_ = self.decl[a.refid]
                writes = [x for x in fn.walk() if x.kind == 'DeclRefExpr' and x.refid == a.refid and x is not a and x.parent is not None and (
                    (x.parent.kind in ('BinaryOperator', 'CompoundAssignOperator') and x.parent.op and x.parent.op.endswith('=')
                     and x.parent.op not in ('==', '!=', '<=', '>=') and strip(x.parent.kids[0]) is x)
                    or (x.parent.kind == 'UnaryOperator' and x.parent.op in ('++', '--', '&')))]
                others = [x for x in fn.walk() if x.kind == 'CallExpr' and x is not lhs and strip(x.kids[0]).ref == 'tie'
                          and any(strip(y).kind == 'DeclRefExpr' and strip(y).refid == a.refid for y in x.kids[1:])]
                if d_.kind == 'VarDecl' and self.init_of(d_) is None and not writes and not others:
                    self._tie[a.refid] = (n.kids[2], i_)

    def init_of(self, decl):
        for k in decl.kids:
            if k.kind not in ('Null',) and not k.kind.endswith('Attr'):
                return k
        return None

    def _ref_to_pointee(self, decl):
        """T &x = *p with p a local pointer that is never re-seated: x is the object p points to, whatever is done with it"""
        t = (decl.type or '').replace('const ', '').strip()
        if not t.endswith('&') or t.endswith('&&'):
            return False
        if decl.parent is not None and decl.parent.parent is not None and decl.parent.parent.kind == 'CXXForRangeStmt':
            return False
        init = self.init_of(decl)
        if init is None:
            return False
        i_ = strip(init)
        if not (i_.kind == 'UnaryOperator' and i_.op == '*' and strip(i_.kids[0]).kind == 'DeclRefExpr'):
            return False
        pname = strip(i_.kids[0]).ref
        pd = [d_ for d_ in self.decl.values() if d_.name == pname and d_.kind == 'VarDecl']
        return len(pd) == 1 and ((pd[0].type or '').rstrip().endswith('*const') or pd[0].id not in self.mutated)

    def inlinable(self, decl):
        if decl.kind != 'VarDecl':
            return False
        if self._ref_to_pointee(decl):
            return True
        if decl.id in self.mutated:
            return False
        if decl.parent is not None and decl.parent.parent is not None and decl.parent.parent.kind == 'CXXForRangeStmt' \
                and not (decl.name or '').startswith('__'):
            return False        # the loop variable of a range-for stands for "an element", however it is declared
        t = (decl.type or '').replace('const ', '').strip()
        if t.endswith(' const'):
            t = t[:-6].strip()
        if t.endswith('*const'):
            t = t[:-5].strip()          # T *const p: a pointer that is never re-seated
        scalar = t in ('float', 'double', 'unsigned int', 'int', 'bool', 'unsigned', 'auto',
                       'category_id', 'unsigned long', 'size_t', 'std::size_t') or t.endswith('*')
        is_ref = self.alias_inline and t.endswith('&') and not t.endswith('&&') and not (
            decl.parent is not None and decl.parent.parent is not None and decl.parent.parent.kind == 'CXXForRangeStmt')
        init = self.init_of(decl)
        if not scalar and not is_ref:
            return False
        if init is None:
            return False
        t_init = term(init, self, _depth=1)
        if is_ref:
            # an alias: every later use denotes the same object; allow anything without calls that change state
            return not any(x[0] in ('unknown', 'new', 'lambda', 'ctor') or (x[0] == 'mcall' and x[2] not in PURE_METHODS)
                           or (x[0] == 'call' and x[1] not in PURE_FUNCS) for x in subterms(t_init))
        return _pure(t_init)


_NEG_CMP = {'==': '!=', '!=': '==', '<': '>=', '>=': '<', '>': '<=', '<=': '>'}


def negate(x):
    """`!x` with the negation pushed into comparisons: a named boolean local (`covers = a == b; if (!covers)`) reads
    like the comparison written out (`a != b`)"""
    if x[0] == 'un' and x[1] == '!':
        return x[2]
    if x[0] == 'bin' and x[1] in _NEG_CMP:
        return ('bin', _NEG_CMP[x[1]], x[2], x[3])
    if x[0] == 'lit' and isinstance(x[1], bool):
        return ('lit', not x[1])
    return ('un', '!', x)


def _pure(t):
    for s in subterms(t):
        if s[0] == 'mcall' and s[2] not in PURE_METHODS:
            return False
        if s[0] == 'call' and s[1] not in PURE_FUNCS:
            return False
        if s[0] in ('unknown', 'ctor', 'new', 'lambda'):
            return False
    return True


def term(n, env=None, _depth=0):
    n = strip(n)
    k = n.kind
    T = lambda x: term(x, env, _depth)
    if k == 'DeclRefExpr':
        if env is not None and n.refid in getattr(env, '_tie', {}) and _depth < 30:
            rhs_, i_ = env._tie[n.refid]
            got_ = pair_component(env, rhs_, i_, _depth + 1)
            if got_ is not None:
                return got_
        if env is not None and n.refid in getattr(env, '_ifelse', {}) and _depth < 30:
            c_, a_, b_ = env._ifelse[n.refid]
            t_ = mk_cond(term(c_, env, _depth + 1), term(a_, env, _depth + 1), term(b_, env, _depth + 1))
            if _pure(t_) or True:
                return t_
        if env is not None and n.refid in env.decl and _depth < 30:
            d = env.decl[n.refid]
            if n.refid not in env._cache:
                env._cache[n.refid] = None
                if env.inlinable(d):
                    env._cache[n.refid] = term(env.init_of(d), env, _depth + 1)
            if env._cache[n.refid] is not None:
                return env._cache[n.refid]
        if n.refkind == 'EnumConstantDecl' and n.ref in GLOBAL_ENUMS:
            return ('lit', GLOBAL_ENUMS[n.ref])
        if n.ref in GLOBAL_CONSTANTS and n.refkind == 'VarDecl' and not (env is not None and n.refid in env.decl) and _depth < 30:
            g = GLOBAL_CONSTANTS[n.ref]
            init = [k_ for k_ in g.kids if k_.kind not in ('Null',) and not k_.kind.endswith('Attr')]
            if init:
                t_ = term(init[0], None, _depth + 1)
                if _pure(t_):
                    return t_
        return ('var', n.ref)
    if k in ('IntegerLiteral', 'FloatingLiteral', 'CXXBoolLiteralExpr', 'StringLiteral',
             'CharacterLiteral'):
        v = n.value
        if k == 'CXXBoolLiteralExpr':
            v = bool(v)
        elif k in ('IntegerLiteral', 'FloatingLiteral'):
            try:
                v = float(v)
                if v == int(v):
                    v = int(v)
            except (TypeError, ValueError):
                pass
        return ('lit', v)
    if k == 'CXXNullPtrLiteralExpr' or k == 'GNUNullExpr':
        return ('lit', None)
    if k == 'CXXThisExpr':
        return ('this',)
    if k == 'MemberExpr':
        base = T(n.kids[0]) if n.kids else ('this',)
        if base[0] == 'addr':
            base = base[1]
        elif base[0] == 'deref':
            base = base[1]
        name_ = n.name
        # a field of a two-member record local that a helper of the header returned ({a, b} on every path): the component
        # the helper computes, as a conditional term over its arguments
        if env is not None and n.kids and _depth < 30:
            b_ = strip(n.kids[0])
            if b_.kind == 'DeclRefExpr' and b_.refid in env.decl and b_.refid not in env.mutated:
                d_ = env.decl[b_.refid]
                rt_ = (d_.type or '').replace('const ', '').replace('struct ', '').replace('class ', '').strip(' &').split('::')[-1]
                flds_ = RECORD_FIELDS.get(rt_)
                init_ = env.init_of(d_) if d_.kind == 'VarDecl' else None
                if flds_ and len(flds_) == 2 and name_ in flds_ and init_ is not None and rt_ not in ('cell_item', 'config', 'combinator_result'):
                    i0_ = strip(init_)
                    while i0_.kind in ('ExprWithCleanups', 'MaterializeTemporaryExpr', 'CXXBindTemporaryExpr', 'CXXConstructExpr') and len(i0_.kids) == 1:
                        i0_ = strip(i0_.kids[0])
                    if i0_.kind == 'CallExpr' and (strip(i0_.kids[0]).ref or '') in getattr(env, 'functions', {}):
                        got_ = pair_component(env, i0_, flds_.index(name_), _depth + 1)
                        if got_ is not None:
                            return got_
                    if i0_.kind == 'InitListExpr' and len(i0_.kids) == 2:
                        # `const span leaf = {a, b};` never written to afterwards: the field is the value it was given
                        return term(i0_.kids[flds_.index(name_)], env, _depth + 1)
        fo_ = getattr(env, 'flat_objects', None) if env is not None else None
        if fo_ and base[0] == 'var' and base[1] in fo_ and name_ in fo_[base[1]]:
            return fo_[base[1]][name_]          # a member of a record local that the model reads as the locals it groups
        if MEMBER_ALIAS and n.kids:
            bt = (n.kids[0].dtype or n.kids[0].type or '').replace('const ', '').replace('struct ', '').replace('class ', '').strip(' &*')
            name_ = MEMBER_ALIAS.get((bt, n.name), n.name)
        return ('mem', base, name_)
    if k == 'UnaryOperator':
        x = T(n.kids[0])
        if n.op == '&':
            if x[0] == 'deref':
                return x[1]
            return ('addr', x)
        if n.op == '*':
            if x[0] == 'addr':
                return x[1]
            return ('deref', x)
        if n.op == '-' and x[0] == 'lit' and isinstance(x[1], (int, float)):
            return ('lit', -x[1])
        if n.op == '+':
            return x
        if n.op == '!':
            return negate(x)
        return ('un', n.op, x)
    if k in ('BinaryOperator', 'CompoundAssignOperator'):
        return ('bin', n.op, T(n.kids[0]), T(n.kids[1]))
    if k == 'ConditionalOperator':
        return mk_cond(T(n.kids[0]), T(n.kids[1]), T(n.kids[2]))
    if k == 'ArraySubscriptExpr':
        return ('idx', T(n.kids[0]), (T(n.kids[1]),))
    if k == 'CXXMemberCallExpr':
        callee = strip(n.kids[0])
        if env is not None and callee.kids and len(n.kids) == 1 and _depth < 30:
            # x.end() on a small record local whose method is one `return <expression over its fields>;`
            b_ = strip(callee.kids[0])
            if b_.kind == 'DeclRefExpr' and b_.refid in env.decl and b_.refid not in env.mutated:
                d_ = env.decl[b_.refid]
                rt_ = (d_.type or '').replace('const ', '').replace('struct ', '').replace('class ', '').strip(' &').split('::')[-1]
                meth_ = RECORD_METHODS.get((rt_, callee.name))
                flds_ = RECORD_FIELDS.get(rt_)
                if meth_ is not None and flds_ and len(flds_) == 2 and d_.kind == 'VarDecl' and rt_ not in ('cell_item', 'config', 'combinator_result', 'chart', 'matrix', 'cell'):
                    comp_ = {}
                    for f_ in flds_:
                        me_ = _blank('MemberExpr', name=f_, arrow=False, line=n.line)
                        me_.kids = [b_]
                        t_ = term(me_, env, _depth + 1)
                        if t_[0] == 'mem' and t_[1] == ('var', d_.name):
                            comp_ = None
                            break
                        comp_[('mem', ('this',), f_)] = t_
                    if comp_:
                        return subst(meth_, comp_)
        obj = T(callee.kids[0]) if callee.kids else ('this',)
        if obj[0] in ('addr', 'deref'):
            obj = obj[1]
        return ('mcall', obj, callee.name, tuple(T(a) for a in n.kids[1:]))
    if k == 'CXXOperatorCallExpr':
        callee = strip(n.kids[0])
        opname = callee.ref or ''
        args = [T(a) for a in n.kids[1:]]
        if opname == 'operator()':
            obj = args[0]
            if obj[0] == 'var' and env is not None:
                # a call of a local lambda
                is_lam = obj[1] in env.lambdas or any(d.name == obj[1] and (d.type or '').startswith('(lambda') for d in env.decl.values())
                if is_lam:
                    inl = inline_callable(env, env.lambdas.get(obj[1]), tuple(args[1:]), _depth)
                    if inl is not None:
                        return inl
                    return ('call', 'lambda:' + obj[1], tuple(args[1:]))
            return ('idx', obj, tuple(args[1:]))
        if opname == 'operator[]':
            return ('idx', args[0], tuple(args[1:]))
        if opname == 'operator*' and len(args) == 1:
            if args[0][0] == 'addr':
                return args[0][1]
            return ('deref', args[0])
        if opname == 'operator->' and len(args) == 1:
            return args[0]
        if opname.startswith('operator') and len(args) == 2:
            return ('bin', opname[len('operator'):], args[0], args[1])
        if opname.startswith('operator') and len(args) == 1:
            return ('un', opname[len('operator'):], args[0])
        return ('call', opname, tuple(args))
    if k == 'CallExpr':
        callee = strip(n.kids[0])
        name = callee.ref or callee.name or '?'
        args = tuple(T(a) for a in n.kids[1:])
        if env is not None and name in getattr(env, 'functions', {}):
            inl = inline_record_builder(env, env.functions[name], args)
            if inl is not None:
                return inl
            inl = inline_callable(env, env.functions[name], args, _depth)
            if inl is not None:
                return inl
        if env is not None and callee.refkind == 'CXXMethodDecl' and name in getattr(env, 'static_builders', {}):
            inl = inline_record_builder(env, env.static_builders[name], args)
            if inl is not None:
                return inl
            inl = inline_callable(env, env.static_builders[name], args, _depth)        # `return {a, b, ..};`
            if inl is not None:
                return inl
        return ('call', name, args)
    if k == 'InitListExpr':
        return ('init', tuple(T(a) for a in n.kids))
    if k == 'CXXConstructExpr' or k == 'CXXTemporaryObjectExpr':
        return ('ctor', n.type, tuple(T(a) for a in n.kids))
    if k == 'LambdaExpr':
        return ('lambda', n.line)
    if k == 'CXXNewExpr':
        return ('new', n.type)
    if k == 'CXXDefaultArgExpr':
        return ('default',)
    if k == 'ImplicitValueInitExpr':
        return ('lit', 0)
    if k == 'CXXScalarValueInitExpr':
        return ('lit', 0)
    return ('unknown', k)


def mk_cond(c, a, b):
    """conditional term with the negation pushed into the branch order: (!c ? a : b) == (c ? b : a)"""
    while c[0] == 'un' and c[1] == '!':
        c, a, b = c[2], b, a
    if c[0] == 'bin' and c[1] == '==' and c[3] == ('lit', False):
        c, a, b = c[2], b, a
    if c[0] == 'lit' and isinstance(c[1], (bool, int)):
        return a if c[1] else b          # a constant selector (helper instantiated with a literal flag)
    return ('cond', c, a, b)


def summarise_callable(fn_node, outer_lambdas=(), functions=None):
    """value of a small side-effect-free function / lambda body as one term over its parameters
    (single-assignment locals inlined, if/return chains as conditional terms), or None."""
    body = None
    for k in fn_node.kids:
        if k.kind == 'CompoundStmt':
            body = k
    if body is None:
        return None
    env = Env(fn_node)
    if functions:
        env.functions = {k_: v_ for k_, v_ in functions.items() if v_ is not fn_node}     # helpers may call other helpers

    def block(stmts):
        stmts = list(stmts)
        while stmts:
            s_ = stmts.pop(0)
            if s_.kind == 'CompoundStmt':
                stmts = list(s_.kids) + stmts
            elif s_.kind == 'ReturnStmt':
                return term(s_.kids[0], env) if s_.kids else None
            elif s_.kind == 'IfStmt':
                c = term(s_.kids[0], env)
                a = block([s_.kids[1]] + stmts)
                b = block(([s_.kids[2]] if len(s_.kids) > 2 else []) + stmts)
                if a is None or b is None:
                    return None
                return mk_cond(c, a, b)
            elif s_.kind in ('DeclStmt', 'NullStmt'):
                for d in s_.find('VarDecl'):
                    if env.init_of(d) is not None and not env.inlinable(d):
                        return None
            else:
                return None
        return None
    t = block(body.kids)
    if t is None or not _pure(t):
        return None
    if any(x[0] == 'idx' and x[1][0] == 'var' and x[1][1] in outer_lambdas for x in subterms(t)):
        return None     # forwards to another local lambda: keep the call visible
    return t


def summarise_pair(fn_node, functions=None):
    """a helper that returns a pair on every path ({a, b}, std::make_pair(a, b), pair<..>(a, b)) with side-effect-free
    components: -> (first, second) as conditional terms over its parameters, or None"""
    body = None
    for k in fn_node.kids:
        if k.kind == 'CompoundStmt':
            body = k
    if body is None:
        return None
    env = Env(fn_node)
    if functions:
        env.functions = {k_: v_ for k_, v_ in functions.items() if v_ is not fn_node}

    def as_pair(t):
        while t[0] == 'ctor' and len(t[2]) == 1 and t[2][0][0] in ('ctor', 'init', 'call'):
            t = t[2][0]
        if t[0] == 'ctor' and len(t[2]) == 2:
            return t[2]
        if t[0] == 'init' and len(t[1]) == 2:
            return t[1]
        if t[0] == 'call' and str(t[1]).split('::')[-1] == 'make_pair' and len(t[2]) == 2:
            return t[2]
        return None

    def block(stmts):
        stmts = list(stmts)
        while stmts:
            s_ = stmts.pop(0)
            if s_.kind == 'CompoundStmt':
                stmts = list(s_.kids) + stmts
            elif s_.kind == 'ReturnStmt':
                pr = as_pair(term(s_.kids[0], env)) if s_.kids else None
                if pr is None or not all(_pure(x) for x in pr):
                    return None
                return tuple(pr)
            elif s_.kind == 'IfStmt':
                c = term(s_.kids[0], env)
                a = block([s_.kids[1]] + stmts)
                b = block(([s_.kids[2]] if len(s_.kids) > 2 else []) + stmts)
                if a is None or b is None or not _pure(c):
                    return None
                return (mk_cond(c, a[0], b[0]), mk_cond(c, a[1], b[1]))
            elif s_.kind in ('DeclStmt', 'NullStmt'):
                for d in s_.find('VarDecl'):
                    if env.init_of(d) is not None and not env.inlinable(d):
                        return None
            else:
                return None
        return None
    return block(body.kids)


def pair_component(env, rhs_node, i, depth):
    """component i of the pair the expression `rhs_node` produces: through a pair-returning helper of the header, else
    .first / .second of the value"""
    r = strip(rhs_node)
    while r.kind in ('ExprWithCleanups', 'MaterializeTemporaryExpr', 'CXXBindTemporaryExpr', 'CXXFunctionalCastExpr') and len(r.kids) == 1:
        r = strip(r.kids[0])
    if r.kind == 'ConditionalOperator':
        a = pair_component(env, r.kids[1], i, depth)
        b = pair_component(env, r.kids[2], i, depth)
        if a is None or b is None:
            return None
        return mk_cond(term(r.kids[0], env, depth), a, b)
    if r.kind == 'CallExpr' and (strip(r.kids[0]).ref or '') in ('make_pair', 'make_tuple', 'tie', 'forward_as_tuple') and len(r.kids) == 3:
        return term(r.kids[1 + i], env, depth)
    if r.kind in ('CXXConstructExpr', 'CXXTemporaryObjectExpr', 'InitListExpr') and len(r.kids) == 2 and ('pair' in (r.type or '') or 'tuple' in (r.type or '')):
        return term(r.kids[i], env, depth)
    if r.kind == 'CallExpr':
        name = strip(r.kids[0]).ref
        fn_node = getattr(env, 'functions', {}).get(name)
        if fn_node is not None:
            cache = env.__dict__.setdefault('_pair_summaries', {})
            key = fn_node.id or id(fn_node)
            if key not in cache:
                cache[key] = summarise_pair(fn_node, getattr(env, 'functions', None))
            body = cache[key]
            params = [p.name for p in fn_node.kids if p.kind == 'ParmVarDecl']
            if body is not None and len(params) == len(r.kids) - 1:
                args = [term(a, env, depth) for a in r.kids[1:]]
                return subst(body[i], {('var', p): a for p, a in zip(params, args)})
            return None
    return None


def summarise_record_builder(fn_node, record_name, fields):
    """a function that declares one local of record type, assigns each of its fields once and returns it is that record's
    initialiser list: -> ('init', values in field order) over the function's parameters, or None"""
    body = None
    for k in fn_node.kids:
        if k.kind == 'CompoundStmt':
            body = k
    if body is None:
        return None
    env = Env(fn_node)
    stmts = list(body.kids)
    if len(stmts) < 3 or stmts[0].kind != 'DeclStmt' or stmts[-1].kind != 'ReturnStmt':
        return None
    vds = stmts[0].find('VarDecl')
    if len(vds) != 1 or record_name not in (vds[0].type or ''):
        return None
    var = vds[0].name
    vals = {}
    for st in stmts[1:-1]:
        n = strip(st)
        if n.kind != 'BinaryOperator' or n.op != '=':
            return None
        lhs = strip(n.kids[0])
        if lhs.kind != 'MemberExpr' or strip(lhs.kids[0]).ref != var or lhs.name in vals:
            return None
        vals[lhs.name] = term(n.kids[1], env)
    ret = [x for x in stmts[-1].walk() if x.kind == 'DeclRefExpr']
    if len(ret) != 1 or ret[0].ref != var:
        return None
    if set(vals) != set(fields):
        return None
    if any(('var', var) in set(subterms(v)) for v in vals.values()):
        return None
    return ('init', tuple(vals[f] for f in fields))


def inline_record_builder(env, fn_node, args):
    recs = getattr(env, 'records', None)
    if not recs or fn_node is None:
        return None
    cache = env.__dict__.setdefault('_builders', {})
    key = fn_node.id or id(fn_node)
    if key not in cache:
        cache[key] = None
        for rname, flds in recs.items():
            r = summarise_record_builder(fn_node, rname, flds)
            if r is not None:
                cache[key] = r
    body = cache[key]
    if body is None:
        return None
    params = [p.name for p in fn_node.kids if p.kind == 'ParmVarDecl']
    if len(params) != len(args):
        return None
    return subst(body, {('var', p): a for p, a in zip(params, args)})


def inline_callable(env, fn_node, args, depth):
    if fn_node is None or depth > 20:
        return None
    cache = env.__dict__.setdefault('_summaries', {}) if hasattr(env, '__dict__') else {}
    key = fn_node.id or id(fn_node)
    if key not in cache:
        cache[key] = summarise_callable(fn_node, tuple(getattr(env, 'lambdas', {})), getattr(env, 'functions', None))
    body = cache[key]
    if body is None:
        return None
    params = [p.name for p in fn_node.kids if p.kind == 'ParmVarDecl']
    if len(params) != len(args):
        return None
    return subst(body, {('var', p): a for p, a in zip(params, args)})


def show(t):
    """Readable, canonical text of a term."""
    if not isinstance(t, tuple):
        return repr(t)
    k = t[0]
    if k == 'var':
        return t[1]
    if k == 'lit':
        return 'nullptr' if t[1] is None else str(t[1]).lower() if isinstance(t[1], bool) else str(t[1])
    if k == 'mem':
        return '%s.%s' % (show(t[1]), t[2])
    if k == 'addr':
        return '&' + show(t[1])
    if k == 'deref':
        return '*' + show(t[1])
    if k == 'call':
        return '%s(%s)' % (t[1], ', '.join(show(a) for a in t[2]))
    if k == 'mcall':
        return '%s.%s(%s)' % (show(t[1]), t[2], ', '.join(show(a) for a in t[3]))
    if k == 'idx':
        return '%s[%s]' % (show(t[1]), ', '.join(show(a) for a in t[2]))
    if k == 'bin':
        return '(%s %s %s)' % (show(t[2]), t[1], show(t[3]))
    if k == 'un':
        return '%s(%s)' % (t[1], show(t[2]))
    if k == 'cond':
        return '(%s ? %s : %s)' % (show(t[1]), show(t[2]), show(t[3]))
    if k == 'init':
        return '{%s}' % ', '.join(show(a) for a in t[1])
    if k == 'ctor':
        return '%s(%s)' % (t[1], ', '.join(show(a) for a in t[2]))
    if k == 'this':
        return 'this'
    return '<%s>' % ' '.join(str(x) for x in t)


def subst(t, mapping):
    """Replace sub-terms (keys of mapping) bottom-up."""
    if t in mapping:
        return mapping[t]
    if not isinstance(t, tuple):
        return t
    out = []
    for x in t:
        if isinstance(x, tuple) and x and isinstance(x[0], str):
            out.append(subst(x, mapping))
        elif isinstance(x, tuple):
            out.append(tuple(subst(y, mapping) for y in x))
        else:
            out.append(x)
    out = tuple(out)
    if out and out[0] == 'cond' and len(out) == 4 and out[1][0] == 'lit':
        out = mk_cond(out[1], out[2], out[3])
    if out and out[0] == 'mem' and len(out) == 3 and isinstance(out[1], tuple) and out[1] and out[1][0] in ('addr', 'deref'):
        out = ('mem', out[1][1], out[2])        # (&x)->f is x.f (a pointer parameter bound to an address); (*p).f is p->f
    return mapping.get(out, out)


def subterms(t):
    if isinstance(t, tuple):
        if t and isinstance(t[0], str):
            yield t
        for x in t:
            if isinstance(x, tuple):
                for s in subterms(x):
                    yield s


def simplify_cond(t, facts):
    """Resolve ('cond', c, a, b) under known truth values `facts` (term -> bool)."""
    if not isinstance(t, tuple):
        return t
    if t and t[0] == 'cond':
        c = simplify_cond(t[1], facts)
        if c in facts:
            return simplify_cond(t[2] if facts[c] else t[3], facts)
        return ('cond', c, simplify_cond(t[2], facts), simplify_cond(t[3], facts))
    out = []
    for x in t:
        if isinstance(x, tuple) and x and isinstance(x[0], str):
            out.append(simplify_cond(x, facts))
        elif isinstance(x, tuple):
            out.append(tuple(simplify_cond(y, facts) for y in x))
        else:
            out.append(x)
    out = tuple(out)
    # &x followed by member access was normalised at build time; redo after choice
    return _renorm(out)


def _renorm(t):
    if isinstance(t, tuple) and t and t[0] == 'mem' and isinstance(t[1], tuple) and t[1][0] in ('addr', 'deref'):
        return ('mem', t[1][1], t[2])
    return t


def linear(t):
    """-> dict atom-text -> coefficient for a +/- expression (zero literals dropped)."""
    out = {}

    def add(x, sign):
        if x[0] == 'bin' and x[1] in ('+', '-'):
            add(x[2], sign)
            add(x[3], sign if x[1] == '+' else -sign)
        elif x[0] == 'un' and x[1] == '-':
            add(x[2], -sign)
        elif x[0] == 'lit' and isinstance(x[1], (int, float)) and not isinstance(x[1], bool):
            if x[1] != 0:
                out['#const'] = out.get('#const', 0) + sign * x[1]
        else:
            key = show(x)
            out[key] = out.get(key, 0) + sign
    add(t, 1)
    return {k: v for k, v in out.items() if v != 0}


def show_linear(lin):
    parts = []
    for k in sorted(lin):
        c = lin[k]
        if k == '#const':
            parts.append('%+g' % c)
        else:
            parts.append(('%+g*' % c if abs(c) != 1 else ('+' if c > 0 else '-')) + k)
    return ' '.join(parts) or '0'


# ---------------------------------------------------------------------------
# Statement context
# ---------------------------------------------------------------------------

def context(n, env, stop=None):
    """Enclosing control constructs of node n, outermost first.

    items: ('if', cond_term, polarity, node) | ('range', var, range_term, node) |
           ('for', node) | ('while', cond_term, node)"""
    out = []
    child = n
    for p in n.ancestors():
        if p is stop:
            break
        if p.kind == 'IfStmt':
            kids = [k for k in p.kids]
            # [cond, then, else?]  (clang may put an init/condvar first: rare, unsupported)
            cond, then = kids[0], kids[1]
            els = kids[2] if len(kids) > 2 else None
            if child is then:
                out.append(('if', term(cond, env), True, p))
            elif els is not None and child is els:
                out.append(('if', term(cond, env), False, p))
        elif p.kind == 'CXXForRangeStmt':
            body = p.kids[-1]
            if child is body:
                loopvar = p.kids[-2]
                vd = loopvar.find('VarDecl')[0]
                # range init: first DeclStmt with a VarDecl named __range*
                rng = None
                for d in p.find('VarDecl'):
                    if (d.name or '').startswith('__range'):
                        rng = term(env.init_of(d), env)
                        rn = strip(env.init_of(d))
                        # the range named first: `const auto &results = *lookup(a, b); for (auto &r : results)` -- a reference /
                        # const local that is never assigned again stands for what it was initialised with
                        if rng is not None and rng[0] == 'var' and rn.kind == 'DeclRefExpr' and rn.refid in env.decl and rn.refid not in env.mutated:
                            dd = env.decl[rn.refid]
                            ty = (dd.type or '')
                            if dd.kind == 'VarDecl' and env.init_of(dd) is not None and ('&' in ty or ty.startswith('const ')):
                                rng = term(env.init_of(dd), env)
                        break
                out.append(('range', vd.name, rng, p))
        elif p.kind == 'ForStmt':
            if child is p.kids[-1]:
                out.append(('for', p))
        elif p.kind == 'WhileStmt':
            if child is p.kids[-1]:
                out.append(('while', term(p.kids[0], env), p))
        elif p.kind == 'CompoundStmt':
            # guard clauses: an earlier `if (c) continue/break/return;` without else means !c for what follows
            later = []
            for sib in p.kids:
                if sib is child:
                    break
                if sib.kind == 'IfStmt' and len(sib.kids) == 2 and _always_leaves(sib.kids[1]):
                    later.append(('if', term(sib.kids[0], env), False, sib))
            out.extend(reversed(later))
        child = p
    out.reverse()
    return out


def _always_leaves(stmt):
    """does this statement always end in continue / break / return / throw?"""
    if stmt.kind in ('ContinueStmt', 'BreakStmt', 'ReturnStmt', 'CXXThrowExpr'):
        return True
    if stmt.kind == 'CompoundStmt' and stmt.kids:
        return _always_leaves(stmt.kids[-1])
    if stmt.kind == 'ExprWithCleanups' and stmt.kids:
        return _always_leaves(stmt.kids[0])
    return False


def for_parts(p):
    """ForStmt -> (init, cond, inc, body) nodes (clang: init, condvar, cond, inc, body)."""
    k = p.kids
    if len(k) != 5:
        raise AnalysisError('%s:%s unexpected for-statement layout' % (HEADER, p.line))
    return k[0], k[2], k[3], k[4]
