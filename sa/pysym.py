"""Path-sensitive symbolic walk over a Python function body (no execution).

`SymExec(fn).run()` enumerates the structural paths of a function (if / for /
while / try / with / return / raise / break / continue / assert; loops are
taken 0 and 1 times, configurable) and evaluates expressions to *terms* under
an environment of local bindings, so a rule can ask "what is passed here, in
terms of the parameters" independent of local names and statement layout.

Terms are nested tuples:
  ('name', id) ('const', v) ('attr', t, name) ('sub', t, i) ('call', f, args, kws)
  ('binop', op, l, r) ('unop', op, x) ('cmp', op, l, r) ('bool', op, ts) ('ifexp', c, a, b)
  ('tuple', ts) ('list', ts) ('set', ts) ('dict', kvs) ('fstr', parts) ('elem', iter_t, loopid)
  ('func', qualname) ('lambda', src) ('comp', src) ('sym', tag...) ('unpack', t, i) ('star', t)
"""
import ast

from .core import AnalysisError, src, dotted

MAX_STATES = 40000


class State(object):
    __slots__ = ('env', 'conds', 'events', 'ret', 'exc', 'data')

    def __init__(self):
        self.env = {}
        self.conds = []     # (term, polarity, node)
        self.events = []    # (kind, ..., node)
        self.ret = None
        self.exc = None
        self.data = {}      # free for hooks (copied shallowly; values must be immutable or copied by hook)

    def copy(self):
        s = State()
        s.env = dict(self.env)
        s.conds = list(self.conds)
        s.events = list(self.events)
        s.ret = self.ret
        s.exc = self.exc
        s.data = {k: (list(v) if isinstance(v, list) else dict(v) if isinstance(v, dict) else v)
                  for k, v in self.data.items()}
        return s


def dotted_key(t):
    if t[0] == 'name':
        return t[1]
    if t[0] == 'attr':
        b = dotted_key(t[1])
        return None if b is None else b + '.' + t[2]
    return None


def show(t):
    if not isinstance(t, tuple) or not t:
        return repr(t)
    k = t[0]
    if k == 'name':
        return t[1]
    if k == 'const':
        return repr(t[1])
    if k == 'attr':
        return '%s.%s' % (show(t[1]), t[2])
    if k == 'sub':
        return '%s[%s]' % (show(t[1]), show(t[2]))
    if k == 'call':
        a = [show(x) for x in t[2]] + ['%s=%s' % (n, show(v)) for n, v in t[3]]
        return '%s(%s)' % (show(t[1]), ', '.join(a))
    if k == 'binop':
        return '(%s %s %s)' % (show(t[2]), t[1], show(t[3]))
    if k == 'unop':
        return '%s(%s)' % (t[1], show(t[2]))
    if k == 'cmp':
        return '(%s %s %s)' % (show(t[2]), t[1], show(t[3]))
    if k == 'bool':
        return '(' + (' %s ' % t[1]).join(show(x) for x in t[2]) + ')'
    if k == 'ifexp':
        return '(%s if %s else %s)' % (show(t[2]), show(t[1]), show(t[3]))
    if k in ('tuple', 'list', 'set'):
        o, c = {'tuple': '()', 'list': '[]', 'set': '{}'}[k]
        return o + ', '.join(show(x) for x in t[1]) + c
    if k == 'elem':
        return 'elem(%s)' % show(t[1])
    if k == 'unpack':
        return '%s#%s' % (show(t[1]), t[2])
    if k == 'sym':
        return '<%s>' % ' '.join(str(x) for x in t[1:])
    if k == 'fstr':
        return 'f"%s"' % ''.join(x if isinstance(x, str) else '{%s}' % show(x) for x in t[1])
    if k == 'dict':
        return '{%s}' % ', '.join('%s: %s' % (show(a) if a else '**', show(b)) for a, b in t[1])
    if k == 'star':
        return '*' + show(t[1])
    if k == 'record':
        return '%s{%s}' % (t[1], ', '.join('%s=%s' % (a, show(b)) for a, b in t[2]))
    if k == 'alloc':
        return 'new-%s@%s' % (t[1], t[2])
    if k in ('listcomp', 'setcomp', 'genexp'):
        return '[%s for elem in %s%s]' % (show(t[1]), ', '.join(show(g[0]) for g in t[2]),
                                          ''.join(' if ' + show(c) for g in t[2] for c in g[1]))
    if k == 'dictcomp':
        return '{%s: %s for elem in %s}' % (show(t[1]), show(t[2]), ', '.join(show(g[0]) for g in t[3]))
    return '<%s>' % ' '.join(str(x) for x in t[1:])


def subterms(t):
    if isinstance(t, tuple):
        if t and isinstance(t[0], str):
            yield t
        for x in t:
            if isinstance(x, tuple):
                for s in subterms(x):
                    yield s


_BINOPS = {ast.Add: '+', ast.Sub: '-', ast.Mult: '*', ast.Div: '/', ast.FloorDiv: '//', ast.Mod: '%',
           ast.Pow: '**', ast.BitOr: '|', ast.BitAnd: '&', ast.BitXor: '^', ast.LShift: '<<',
           ast.RShift: '>>', ast.MatMult: '@'}
_CMPOPS = {ast.Eq: '==', ast.NotEq: '!=', ast.Lt: '<', ast.LtE: '<=', ast.Gt: '>', ast.GtE: '>=',
           ast.Is: 'is', ast.IsNot: 'is not', ast.In: 'in', ast.NotIn: 'not in'}
_UNOPS = {ast.Not: 'not', ast.USub: '-', ast.UAdd: '+', ast.Invert: '~'}


class SymExec(object):
    def __init__(self, fn, unroll=1, on_call=None, on_stmt=None, init_env=None, implicit_except=True,
                 watch_attrs=None):
        self.fn = fn
        self.unroll = unroll
        self.on_call = on_call
        self.on_stmt = on_stmt
        self.init_env = init_env or {}
        self.implicit_except = implicit_except
        self.count = 0
        self.watch_attrs = watch_attrs or ()
        a = getattr(fn, 'args', None)
        self._params = set()
        if a is not None:
            self._params = {x.arg for x in a.posonlyargs + a.args + a.kwonlyargs}
            if a.vararg:
                self._params.add(a.vararg.arg)
            if a.kwarg:
                self._params.add(a.kwarg.arg)
        self._guard = []    # conditions under which the expression being evaluated is reached (IfExp / and / or)

    # -- expressions -------------------------------------------------------
    def ev(self, n, st):
        E = lambda x: self.ev(x, st)
        if isinstance(n, ast.Constant):
            return ('const', n.value)
        if isinstance(n, ast.Name):
            if n.id in st.env:
                v = st.env[n.id]
                if not (v[0] == 'call' and v[1] == ('name', '__cdecl__')):
                    return v
                # a declared C struct: if fields were assigned since, show them (below); else the declaration itself
                if not any(isinstance(k, str) and k.startswith(n.id + '.') for k in st.env):
                    return v
            pre = n.id + '.'
            fields = () if n.id in self._params else tuple(sorted((k[len(pre):], v) for k, v in st.env.items()
                                  if isinstance(k, str) and k.startswith(pre) and '.' not in k[len(pre):]))
            if fields:      # a record assembled field by field (e.g. a cdef struct / pair)
                return ('record', n.id, fields)
            return ('name', n.id)
        if isinstance(n, ast.Attribute):
            b = E(n.value)
            if n.attr in self.watch_attrs:
                st.events.append(('getattr', b, n.attr, n))
                if self._guard:
                    st.data.setdefault('guards', {})[id(n)] = tuple(self._guard)
            if b[0] == 'record':
                for k, v in b[2]:
                    if k == n.attr:
                        return v
            t = ('attr', b, n.attr)
            k = dotted_key(t)
            if k is not None and k in st.env:
                return st.env[k]
            return t
        if isinstance(n, ast.Subscript):
            b = E(n.value)
            i = E(n.slice)
            t = ('sub', b, i)
            key = ('@sub', b, i)
            if key in st.env:
                return st.env[key]
            return t
        if isinstance(n, ast.Slice):
            return ('slice', E(n.lower) if n.lower else None, E(n.upper) if n.upper else None,
                    E(n.step) if n.step else None)
        if isinstance(n, ast.Call):
            f = E(n.func)
            args = []
            for a in n.args:
                if isinstance(a, ast.Starred):
                    v = E(a.value)
                    if v[0] in ('tuple', 'list'):
                        args.extend(v[1])
                    else:
                        args.append(('star', v))
                else:
                    args.append(E(a))
            kws = tuple((kw.arg, E(kw.value)) for kw in n.keywords)
            t = ('call', f, tuple(args), kws)
            st.events.append(('call', t, n))
            if self._guard:
                st.data.setdefault('guards', {})[id(n)] = tuple(self._guard)
            if self.on_call is not None:
                r = self.on_call(st, t, n)
                if r is not None:
                    return r
            return t
        if isinstance(n, ast.BinOp):
            return ('binop', _BINOPS.get(type(n.op), '?'), E(n.left), E(n.right))
        if isinstance(n, ast.UnaryOp):
            v = E(n.operand)
            if isinstance(n.op, ast.USub) and v[0] == 'const' and isinstance(v[1], (int, float)) and not isinstance(v[1], bool):
                return ('const', -v[1])
            return ('unop', _UNOPS.get(type(n.op), '?'), v)
        if isinstance(n, ast.BoolOp):
            is_and = isinstance(n.op, ast.And)
            vals = []
            depth = len(self._guard)
            for v in n.values:
                t = E(v)
                vals.append(t)
                self._guard.append((t, is_and))     # later operands run only if this one was truthy (and) / falsy (or)
            del self._guard[depth:]
            return ('bool', 'and' if is_and else 'or', tuple(vals))
        if isinstance(n, ast.Compare):
            if len(n.ops) == 1:
                return ('cmp', _CMPOPS.get(type(n.ops[0]), '?'), E(n.left), E(n.comparators[0]))
            parts = []
            left = n.left
            for op, c in zip(n.ops, n.comparators):
                parts.append(('cmp', _CMPOPS.get(type(op), '?'), E(left), E(c)))
                left = c
            return ('bool', 'and', tuple(parts))
        if isinstance(n, ast.IfExp):
            c = E(n.test)
            self._guard.append((c, True))
            a = E(n.body)
            self._guard[-1] = (c, False)
            b = E(n.orelse)
            self._guard.pop()
            return ('ifexp', c, a, b)
        if isinstance(n, ast.Tuple):
            return ('tuple', tuple(E(x) for x in n.elts))
        if isinstance(n, ast.List):
            return ('list', tuple(E(x) for x in n.elts))
        if isinstance(n, ast.Set):
            return ('set', tuple(E(x) for x in n.elts))
        if isinstance(n, ast.Dict):
            return ('dict', tuple((E(k) if k is not None else None, E(v)) for k, v in zip(n.keys, n.values)))
        if isinstance(n, ast.JoinedStr):
            parts = []
            for v in n.values:
                if isinstance(v, ast.Constant):
                    parts.append(str(v.value))
                elif isinstance(v, ast.FormattedValue):
                    parts.append(E(v.value))
            return ('fstr', tuple(parts))
        if isinstance(n, ast.Lambda):
            return ('lambda', src(n))
        if isinstance(n, (ast.ListComp, ast.SetComp, ast.GeneratorExp)) and len(n.generators) >= 1:
            sub = st.copy()
            gens = []
            for g in n.generators:
                it = self.ev(g.iter, sub)
                self.bind(g.target, ('elem', it, g.iter.lineno), sub, n)
                conds = tuple(self.ev(c, sub) for c in g.ifs)
                gens.append((it, conds))
            elt = self.ev(n.elt, sub)
            for e in sub.events[len(st.events):]:
                st.events.append(('in-comp',) + tuple(e))
            st.data = sub.data      # hook state set while evaluating the element expression
            kind = {ast.ListComp: 'listcomp', ast.SetComp: 'setcomp', ast.GeneratorExp: 'genexp'}[type(n)]
            return (kind, elt, tuple(gens))
        if isinstance(n, ast.DictComp):
            sub = st.copy()
            gens = []
            for g in n.generators:
                it = self.ev(g.iter, sub)
                self.bind(g.target, ('elem', it, g.iter.lineno), sub, n)
                conds = tuple(self.ev(c, sub) for c in g.ifs)
                gens.append((it, conds))
            k, v = self.ev(n.key, sub), self.ev(n.value, sub)
            return ('dictcomp', k, v, tuple(gens))
        if isinstance(n, ast.Starred):
            return ('star', E(n.value))
        if isinstance(n, ast.NamedExpr):
            v = E(n.value)
            st.env[n.target.id] = v
            return v
        if isinstance(n, ast.Await):
            return E(n.value)
        return ('expr', src(n))

    # -- assignment --------------------------------------------------------
    def bind(self, target, val, st, node):
        if isinstance(target, ast.Name):
            st.env[target.id] = val
        elif isinstance(target, (ast.Tuple, ast.List)):
            if val[0] in ('tuple', 'list') and len(val[1]) == len(target.elts) and \
                    not any(isinstance(e, ast.Starred) for e in target.elts):
                for e, v in zip(target.elts, val[1]):
                    self.bind(e, v, st, node)
            else:
                for i, e in enumerate(target.elts):
                    self.bind(e.value if isinstance(e, ast.Starred) else e, ('unpack', val, i), st, node)
        elif isinstance(target, ast.Attribute):
            if isinstance(target.value, ast.Name) and target.value.id not in st.env:
                obj = ('name', target.value.id)     # keep identity (not a field snapshot)
            else:
                obj = self.ev(target.value, st)
            k = dotted(target)
            if k is not None:
                st.env[k] = val
            st.events.append(('setattr', obj, target.attr, val, node))
        elif isinstance(target, ast.Subscript):
            obj = self.ev(target.value, st)
            idx = self.ev(target.slice, st)
            st.env[('@sub', obj, idx)] = val
            st.events.append(('setitem', obj, idx, val, node))
        elif isinstance(target, ast.Starred):
            self.bind(target.value, ('star', val), st, node)

    # -- statements --------------------------------------------------------
    def tick(self):
        self.count += 1
        if self.count > MAX_STATES:
            raise AnalysisError('path explosion in %s' % getattr(self.fn, 'name', '?'))

    def block(self, stmts, st):
        if not stmts:
            yield st, 'fall'
            return
        s, rest = stmts[0], stmts[1:]
        for st2, out in self.stmt(s, st):
            if out == 'fall':
                for r in self.block(rest, st2):
                    yield r
            else:
                yield st2, out

    def stmt(self, s, st):
        self.tick()
        if self.on_stmt is not None:
            self.on_stmt(st, s)
        if isinstance(s, ast.Expr):
            v = self.ev(s.value, st)
            st.events.append(('expr', v, s))
            yield st, 'fall'
        elif isinstance(s, ast.Assign):
            if isinstance(s.value, (ast.List, ast.Dict, ast.Set)) and not getattr(s.value, 'elts', None) \
                    and not getattr(s.value, 'keys', None):
                v = ('alloc', type(s.value).__name__.lower(), s.lineno)   # a fresh empty container
            else:
                v = self.ev(s.value, st)
            for t in s.targets:
                self.bind(t, v, st, s)
            yield st, 'fall'
        elif isinstance(s, ast.AnnAssign):
            if s.value is not None:
                self.bind(s.target, self.ev(s.value, st), st, s)
            yield st, 'fall'
        elif isinstance(s, ast.AugAssign):
            val = self.ev(s.value, st)
            if isinstance(s.target, ast.Name):
                old = self.ev(s.target, st)
                st.env[s.target.id] = ('binop', _BINOPS.get(type(s.op), '?'), old, val)
                st.events.append(('aug', ('name', s.target.id), _BINOPS.get(type(s.op), '?'), val, s))
            else:
                tgt = self.ev(s.target, st)
                st.events.append(('aug', tgt, _BINOPS.get(type(s.op), '?'), val, s))
            yield st, 'fall'
        elif isinstance(s, ast.Return):
            st.ret = self.ev(s.value, st) if s.value is not None else ('const', None)
            st.events.append(('return', st.ret, s))
            yield st, 'return'
        elif isinstance(s, ast.Raise):
            st.exc = self.ev(s.exc, st) if s.exc is not None else ('reraise',)
            st.events.append(('raise', st.exc, s))
            yield st, 'raise'
        elif isinstance(s, ast.Assert):
            c = self.ev(s.test, st)
            st.conds.append((c, True, s))
            st.events.append(('assert', c, s))
            yield st, 'fall'
        elif isinstance(s, ast.If):
            c = self.ev(s.test, st)
            for pol, body in ((True, s.body), (False, s.orelse)):
                st2 = st.copy()
                st2.conds.append((c, pol, s))
                st2.events.append(('branch', c, pol, s))
                for r in self.block(body, st2):
                    yield r
        elif isinstance(s, (ast.For, ast.AsyncFor)):
            it = self.ev(s.iter, st)
            st0 = st.copy()
            st0.events.append(('loop-skip', it, s))
            for r in self.block(s.orelse, st0):
                yield r
            for r in self._iterate(s, it, st.copy(), self.unroll):
                yield r
        elif isinstance(s, ast.While):
            c = self.ev(s.test, st)
            st0 = st.copy()
            st0.conds.append((c, False, s))
            st0.events.append(('loop-skip', c, s))
            for r in self.block(s.orelse, st0):
                yield r
            st1 = st.copy()
            st1.conds.append((c, True, s))
            st1.events.append(('loop-enter', c, s))
            for st2, out in self.block(s.body, st1):
                if out in ('fall', 'continue', 'break'):
                    st2.events.append(('loop-exit', c, s))
                    yield st2, 'fall'
                else:
                    yield st2, out
        elif isinstance(s, ast.Try):
            def fin(st_, out_):
                if not s.finalbody:
                    yield st_, out_
                    return
                for st3, o3 in self.block(s.finalbody, st_):
                    yield st3, (out_ if o3 == 'fall' else o3)
            for st2, out in self.block(s.body, st.copy()):
                if out == 'fall':
                    for st3, o3 in self.block(s.orelse, st2):
                        for r in fin(st3, o3):
                            yield r
                elif out == 'raise' and s.handlers:
                    for h in s.handlers:
                        st_h = st2.copy()
                        st_h.events.append(('except', src(h.type) if h.type is not None else None, h))
                        if h.name:
                            st_h.env[h.name] = ('sym', 'exception', h.lineno)
                        for st3, o3 in self.block(h.body, st_h):
                            for r in fin(st3, o3):
                                yield r
                else:
                    for r in fin(st2, out):
                        yield r
            if self.implicit_except:
                for h in s.handlers:
                    st_h = st.copy()
                    st_h.events.append(('except-implicit', src(h.type) if h.type is not None else None, h))
                    if h.name:
                        st_h.env[h.name] = ('sym', 'exception', h.lineno)
                    for st3, o3 in self.block(h.body, st_h):
                        for r in fin(st3, o3):
                            yield r
        elif isinstance(s, (ast.With, ast.AsyncWith)):
            for item in s.items:
                v = self.ev(item.context_expr, st)
                if item.optional_vars is not None:
                    self.bind(item.optional_vars, ('sym', 'ctx', show(v)), st, s)
            for r in self.block(s.body, st):
                yield r
        elif isinstance(s, (ast.FunctionDef, ast.AsyncFunctionDef)):
            st.env[s.name] = ('func', s.name, id(s))
            yield st, 'fall'
        elif isinstance(s, ast.ClassDef):
            st.env[s.name] = ('class', s.name)
            yield st, 'fall'
        elif isinstance(s, ast.Break):
            yield st, 'break'
        elif isinstance(s, ast.Continue):
            yield st, 'continue'
        elif isinstance(s, ast.Delete):
            for t in s.targets:
                st.events.append(('del', self.ev(t, st), s))
            yield st, 'fall'
        elif isinstance(s, (ast.Pass, ast.Global, ast.Nonlocal, ast.Import, ast.ImportFrom)):
            yield st, 'fall'
        else:
            raise AnalysisError('unsupported statement %s at line %s' % (type(s).__name__, s.lineno))

    def _iterate(self, s, it, st, remaining):
        elem = ('elem', it, s.lineno)
        self.bind(s.target, elem, st, s)
        st.events.append(('loop-enter', it, s))
        for st2, out in self.block(s.body, st):
            if out in ('fall', 'continue'):
                if remaining > 1:
                    for r in self._iterate(s, it, st2.copy(), remaining - 1):
                        yield r
                st3 = st2.copy() if remaining > 1 else st2
                st3.events.append(('loop-exit', it, s))
                for r in self.block(s.orelse, st3):
                    yield r
            elif out == 'break':
                st2.events.append(('loop-exit', it, s))
                yield st2, 'fall'
            else:
                yield st2, out

    def run(self, body=None):
        st = State()
        st.env.update(self.init_env)
        if body is None:
            body = self.fn.body
        out = []
        for st2, o in self.block(list(body), st):
            out.append((st2, o))
        return out


def calls_in(st, pred=None):
    return [e for e in st.events if e[0] == 'call' and (pred is None or pred(e[1]))]


def is_method_call(t, method, obj=None):
    return (t[0] == 'call' and t[1][0] == 'attr' and t[1][2] == method
            and (obj is None or t[1][1] == obj))


def subterms_guarded(t, guards=()):
    """like subterms(), but yields (subterm, guards) where guards are the (condition, polarity) pairs under
    which the subterm is evaluated inside conditional expressions and short-circuit operators."""
    if not isinstance(t, tuple) or not t:
        return
    if isinstance(t[0], str):
        yield t, guards
        if t[0] == 'ifexp':
            for r in subterms_guarded(t[1], guards):
                yield r
            for r in subterms_guarded(t[2], guards + ((t[1], True),)):
                yield r
            for r in subterms_guarded(t[3], guards + ((t[1], False),)):
                yield r
            return
        if t[0] == 'bool':
            g = guards
            for x in t[2]:
                for r in subterms_guarded(x, g):
                    yield r
                g = g + ((x, t[1] == 'and'),)
            return
    for x in t:
        if isinstance(x, tuple):
            for r in subterms_guarded(x, guards):
                yield r
