"""Path-sensitive symbolic walk over a Python function body (no execution).

`SymExec(fn).run()` enumerates the structural paths of a function (if / for /
while / try / with / return / raise / break / continue / assert; loops are
taken 0 and 1 times, configurable) and evaluates expressions to *terms* under
an environment of local bindings, so a rule can ask "what is passed here, in
terms of the parameters" independent of local names and statement layout.

Terms are nested tuples:
  ('name', id) ('const', v) ('attr', t, name) ('sub', t, i) ('call', f, args, kws)
  ('binop', op, l, r) ('unop', op, x) ('cmp', op, l, r) ('bool', op, ts) ('ifexp', c, a, b)
  ('tuple', ts) ('list', ts) ('set', ts) ('dict', kvs) ('fstr', parts) ('elem', iter_t, loopid)
  ('func', qualname) ('lambda', src) ('comp', src) ('sym', tag...) ('unpack', t, i) ('star', t)
"""
import ast

from .core import AnalysisError, src, dotted

MAX_STATES = 40000


class State(object):
    __slots__ = ('env', 'conds', 'events', 'ret', 'exc', 'data')

    def __init__(self):
        self.env = {}
        self.conds = []     # (term, polarity, node)
        self.events = []    # (kind, ..., node)
        self.ret = None
        self.exc = None
        self.data = {}      # free for hooks (copied shallowly; values must be immutable or copied by hook)

    def copy(self):
        s = State()
        s.env = dict(self.env)
        s.conds = list(self.conds)
        s.events = list(self.events)
        s.ret = self.ret
        s.exc = self.exc
        s.data = {k: (list(v) if isinstance(v, list) else dict(v) if isinstance(v, dict) else v)
                  for k, v in self.data.items()}
        return s


def dotted_key(t):
    if t[0] == 'name':
        return t[1]
    if t[0] == 'attr':
        b = dotted_key(t[1])
        return None if b is None else b + '.' + t[2]
    return None


def show(t):
    if not isinstance(t, tuple) or not t:
        return repr(t)
    k = t[0]
    if k == 'name':
        return t[1]
    if k == 'const':
        return repr(t[1])
    if k == 'attr':
        return '%s.%s' % (show(t[1]), t[2])
    if k == 'sub':
        return '%s[%s]' % (show(t[1]), show(t[2]))
    if k == 'call':
        a = [show(x) for x in t[2]] + ['%s=%s' % (n, show(v)) for n, v in t[3]]
        return '%s(%s)' % (show(t[1]), ', '.join(a))
    if k == 'binop':
        return '(%s %s %s)' % (show(t[2]), t[1], show(t[3]))
    if k == 'unop':
        return '%s(%s)' % (t[1], show(t[2]))
    if k == 'cmp':
        return '(%s %s %s)' % (show(t[2]), t[1], show(t[3]))
    if k == 'bool':
        return '(' + (' %s ' % t[1]).join(show(x) for x in t[2]) + ')'
    if k == 'ifexp':
        return '(%s if %s else %s)' % (show(t[2]), show(t[1]), show(t[3]))
    if k in ('tuple', 'list', 'set'):
        o, c = {'tuple': '()', 'list': '[]', 'set': '{}'}[k]
        return o + ', '.join(show(x) for x in t[1]) + c
    if k == 'elem':
        return 'elem(%s)' % show(t[1])
    if k == 'unpack':
        return '%s#%s' % (show(t[1]), t[2])
    if k == 'sym':
        return '<%s>' % ' '.join(str(x) for x in t[1:])
    if k == 'fstr':
        return 'f"%s"' % ''.join(x if isinstance(x, str) else '{%s}' % show(x) for x in t[1])
    if k == 'dict':
        return '{%s}' % ', '.join('%s: %s' % (show(a) if a else '**', show(b)) for a, b in t[1])
    if k == 'star':
        return '*' + show(t[1])
    if k == 'record':
        return '%s{%s}' % (t[1], ', '.join('%s=%s' % (a, show(b)) for a, b in t[2]))
    if k == 'alloc':
        return 'new-%s@%s' % (t[1], t[2])
    if k == 'mutated':
        return '%s after .%s(%s)' % (show(t[1]), t[2], ', '.join(show(a) for a in t[3]))
    if k in ('listcomp', 'setcomp', 'genexp'):
        return '[%s for elem in %s%s]' % (show(t[1]), ', '.join(show(g[0]) for g in t[2]),
                                          ''.join(' if ' + show(c) for g in t[2] for c in g[1]))
    if k == 'dictcomp':
        return '{%s: %s for elem in %s}' % (show(t[1]), show(t[2]), ', '.join(show(g[0]) for g in t[3]))
    return '<%s>' % ' '.join(str(x) for x in t[1:])


def subterms(t):
    if isinstance(t, tuple):
        if t and isinstance(t[0], str):
            yield t
        for x in t:
            if isinstance(x, tuple):
                for s in subterms(x):
                    yield s


_BINOPS = {ast.Add: '+', ast.Sub: '-', ast.Mult: '*', ast.Div: '/', ast.FloorDiv: '//', ast.Mod: '%',
           ast.Pow: '**', ast.BitOr: '|', ast.BitAnd: '&', ast.BitXor: '^', ast.LShift: '<<',
           ast.RShift: '>>', ast.MatMult: '@'}
_CMPOPS = {ast.Eq: '==', ast.NotEq: '!=', ast.Lt: '<', ast.LtE: '<=', ast.Gt: '>', ast.GtE: '>=',
           ast.Is: 'is', ast.IsNot: 'is not', ast.In: 'in', ast.NotIn: 'not in'}
_UNOPS = {ast.Not: 'not', ast.USub: '-', ast.UAdd: '+', ast.Invert: '~'}


UNSUPPORTED = ('unsupported',)
_OPERATOR_FNS = {'eq': (2, 'cmp', '=='), 'ne': (2, 'cmp', '!='), 'lt': (2, 'cmp', '<'), 'le': (2, 'cmp', '<='), 'gt': (2, 'cmp', '>'),
                 'ge': (2, 'cmp', '>='), 'is_': (2, 'cmp', 'is'), 'is_not': (2, 'cmp', 'is not'), 'contains': (2, 'cmp', 'in-rev'),
                 'xor': (2, 'binop', '^'), 'or_': (2, 'binop', '|'), 'and_': (2, 'binop', '&'), 'add': (2, 'binop', '+'),
                 'sub': (2, 'binop', '-'), 'mul': (2, 'binop', '*'), 'truediv': (2, 'binop', '/'), 'not_': (1, 'unop', 'not'),
                 'neg': (1, 'unop', '-'), 'getitem': (2, 'sub', None)}
_INPLACE = {'sort', 'reverse', 'append', 'extend', 'insert', 'pop', 'remove', 'clear', 'update', 'setdefault', 'popitem', 'add', 'discard'}
_FUNC_BY_ID = {}      # id(FunctionDef) -> node, for ('func', name, id) terms (nodes stay alive with their module)

# The vocabulary of the rules: functions of the repository that checks recognise by name as opaque operations
# (confirmed on the reference tree).  A call to one of these stays a call term; every other helper that resolves
# to a definition in the same module / class / enclosing function is inlined, so extracting or renaming private
# helpers does not change what the rules see.
VOCABULARY = frozenset('''
__eq__ __getitem__ __init__ __or__ __repr__ __setattr__ __str__ __truediv__ _binarize _chunks _is_modifier
_is_punct _is_type_raised _mathml_subtree _parse_ptb _process_tree _prolog_string _resolve_dependencies
_type_check _unary_rule_symbol add_common_parser_arguments apply_binary_rules apply_category_filters
apply_unary_rules arg auto_extended_of auto_of build_ccg_tree cats check child clear_features conll_of data
decode denormalize deriv_of find_node_by_id functor get_global_language guess_combinator_by_triplet init_config
is_atomic is_functor is_ignorable is_leaf is_unary is_variable items keys left_child load main make_binary
make_terminal make_unary maybe_add_and_get nargs next next_node parse parse_args parse_leaf parse_sentence
parse_tree peek ptb_of read_jigg_xml read_params read_xml rec retrieve_tree right_child run scaffold spid
to_jigg_xml to_string token tokens traverse_cat unifies unify values word xml_of normalize
'''.split())


def _contains(t, x):
    if t is x:
        return True
    if isinstance(t, tuple):
        return any(_contains(y, x) for y in t)
    return False


def _module_callables(tree):
    """names bound at module level to functions / classes (defined or imported): usable as values in literal tables"""
    cache = getattr(tree, '_callables', None)
    if cache is None:
        cache = set()
        for s_ in tree.body:
            if isinstance(s_, (ast.FunctionDef, ast.ClassDef)):
                cache.add(s_.name)
            elif isinstance(s_, ast.ImportFrom):
                for al in s_.names:
                    cache.add(al.asname or al.name)
        cache |= {'int', 'float', 'str', 'bool', 'list', 'tuple', 'dict', 'set', 'len'}
        try:
            tree._callables = cache
        except Exception:
            pass
    return cache


def _literal_term(node, tree=None):
    """term of an AST literal made only of constants (nested tuples / lists / sets / dicts / frozenset(...)); with `tree`
    (the module) also names of its functions / classes and calls of its record classes on literals; else None"""
    if isinstance(node, ast.Constant):
        return ('const', node.value)
    if tree is not None and isinstance(node, ast.Name) and node.id in _module_callables(tree):
        return ('name', node.id)
    if isinstance(node, ast.Name) and node.id in ('int', 'float', 'str', 'bool') and (tree is None or node.id not in _module_callables(tree)):
        return ('name', node.id)        # the builtin types, as values (type=int in an option table)
    if isinstance(node, ast.Call) and isinstance(node.func, ast.Name) and node.func.id == 'dict' and not node.args \
            and node.keywords and all(k.arg is not None for k in node.keywords):
        vs = [_literal_term(k.value, tree) for k in node.keywords]
        if all(v is not None for v in vs):
            return ('dict', tuple((('const', k.arg), v) for k, v in zip(node.keywords, vs)))     # dict(a=1) is {'a': 1}
    if tree is not None and isinstance(node, ast.Call) and isinstance(node.func, ast.Name) and not any(isinstance(a, ast.Starred) for a in node.args) \
            and all(k.arg is not None for k in node.keywords):
        cls_ = [s_ for s_ in tree.body if isinstance(s_, ast.ClassDef) and s_.name == node.func.id]
        if cls_ and _record_fields_of(cls_[0]) is not None:
            args = [_literal_term(a, tree) for a in node.args]
            kws = [(k.arg, _literal_term(k.value, tree)) for k in node.keywords]
            if all(a is not None for a in args) and all(v is not None for _, v in kws):
                args, kws = _positional([f for f, _ in _record_fields_of(cls_[0])], args, tuple(kws))
                return ('call', ('name', node.func.id), tuple(args), tuple(kws))
    if isinstance(node, ast.Call) and not node.keywords and node.args and all(isinstance(a, ast.Constant) and isinstance(a.value, (str, int)) for a in node.args) \
            and ((isinstance(node.func, ast.Name) and node.func.id in ('itemgetter', 'attrgetter'))
                 or (isinstance(node.func, ast.Attribute) and node.func.attr in ('itemgetter', 'attrgetter') and isinstance(node.func.value, ast.Name) and node.func.value.id == 'operator')):
        # a getter built from constant keys / names: applied, it is the lookups it abbreviates
        return ('call', ('name', node.func.id if isinstance(node.func, ast.Name) else node.func.attr), tuple(('const', a.value) for a in node.args), ())
    if isinstance(node, ast.UnaryOp) and isinstance(node.op, ast.USub) and isinstance(node.operand, ast.Constant) \
            and isinstance(node.operand.value, (int, float)):
        return ('const', -node.operand.value)
    if tree is not None and isinstance(node, ast.Name):
        # another module-level name bound once to a text / number constant
        binds = [s_ for s_ in tree.body if isinstance(s_, ast.Assign) and any(isinstance(t_, ast.Name) and t_.id == node.id for t_ in s_.targets)]
        if len(binds) == 1 and isinstance(binds[0].value, ast.Constant) and isinstance(binds[0].value.value, (str, int, float)) \
                and not isinstance(binds[0].value.value, bool):
            return ('const', binds[0].value.value)
    if tree is not None and isinstance(node, ast.BinOp) and isinstance(node.op, ast.Add):
        a_, b_ = _literal_term(node.left, tree), _literal_term(node.right, tree)
        if a_ is not None and b_ is not None and a_[0] == b_[0] == 'const' and isinstance(a_[1], str) and isinstance(b_[1], str):
            return ('const', a_[1] + b_[1])
    if isinstance(node, (ast.Tuple, ast.List, ast.Set)):
        items = [_literal_term(e, tree) for e in node.elts]
        if any(i is None for i in items):
            return None
        return ({ast.Tuple: 'tuple', ast.List: 'list', ast.Set: 'set'}[type(node)], tuple(items))
    if isinstance(node, ast.Dict):
        ks = [_literal_term(k, tree) if k is not None else None for k in node.keys]
        vs = [_literal_term(v, tree) for v in node.values]
        if any(k is None for k in ks) or any(v is None for v in vs):
            return None
        return ('dict', tuple(zip(ks, vs)))
    if isinstance(node, ast.UnaryOp) and isinstance(node.op, (ast.USub, ast.UAdd)):
        inner = _literal_term(node.operand, tree)
        if inner is not None and inner[0] in ('call', 'attr'):
            return ('unop', '-' if isinstance(node.op, ast.USub) else '+', inner)
    if isinstance(node, ast.Call) and isinstance(node.func, ast.Name) and node.func.id in ('float', 'int', 'str') \
            and len(node.args) == 1 and not node.keywords and isinstance(node.args[0], ast.Constant):
        return ('call', ('name', node.func.id), (('const', node.args[0].value),), ())      # float('inf') and the like
    if isinstance(node, ast.Attribute) and isinstance(node.value, ast.Name) and node.value.id in ('math', 'np', 'numpy') \
            and node.attr in ('inf', 'pi', 'e', 'nan'):
        return ('attr', ('name', node.value.id), node.attr)
    if isinstance(node, ast.Call) and isinstance(node.func, ast.Attribute) and isinstance(node.func.value, ast.Name) \
            and (node.func.value.id, node.func.attr) == ('Category', 'parse') and len(node.args) == 1 and not node.keywords \
            and isinstance(node.args[0], ast.Constant) and isinstance(node.args[0].value, str):
        # a category written as its text: a value (categories are immutable)
        return ('call', ('attr', ('name', 'Category'), 'parse'), (('const', node.args[0].value),), ())
    if tree is not None and isinstance(node, ast.Call) and isinstance(node.func, ast.Name) and not node.keywords \
            and node.func.id in _module_callables(tree) and node.func.id not in ('int', 'float', 'str', 'bool', 'list', 'tuple', 'dict', 'set', 'len') \
            and node.args and not any(isinstance(a, ast.Starred) for a in node.args):
        # a helper applied to literals (`_schema("a/b", "b")`): kept as the call, evaluated where it is used
        args = [_literal_term(a, tree) for a in node.args]
        if all(a is not None and a[0] in ('const', 'tuple', 'call') for a in args):
            fdefs = [s_ for s_ in tree.body if isinstance(s_, ast.FunctionDef) and s_.name == node.func.id]
            imported = any(isinstance(s_, ast.ImportFrom) and any((al.asname or al.name) == node.func.id for al in s_.names) for s_ in tree.body)
            if (len(fdefs) == 1 and not fdefs[0].decorator_list) or (not fdefs and imported):
                return ('call', ('name', node.func.id), tuple(args), ())
    if isinstance(node, ast.Call) and isinstance(node.func, ast.Attribute) and isinstance(node.func.value, ast.Name) \
            and (node.func.value.id, node.func.attr) == ('str', 'maketrans') and len(node.args) == 1 and not node.keywords \
            and isinstance(node.args[0], ast.Dict):
        inner = _literal_term(node.args[0], tree)      # a translation table is a value
        if inner is not None:
            return ('call', ('attr', ('name', 'str'), 'maketrans'), (inner,), ())
    if isinstance(node, ast.Call) and isinstance(node.func, ast.Attribute) and isinstance(node.func.value, ast.Name) \
            and (node.func.value.id, node.func.attr) == ('re', 'compile') and node.args and not node.keywords \
            and all(isinstance(a, ast.Constant) for a in node.args):
        # a compiled pattern is a value: re.compile(<constants>)
        return ('call', ('attr', ('name', 're'), 'compile'), tuple(('const', a.value) for a in node.args), ())
    if isinstance(node, ast.Call) and isinstance(node.func, ast.Name) and node.func.id in ('frozenset', 'set', 'tuple') \
            and len(node.args) == 1 and not node.keywords:
        inner = _literal_term(node.args[0], tree)
        if inner is not None and inner[0] in ('tuple', 'list', 'set'):
            return ('set' if node.func.id != 'tuple' else 'tuple', inner[1])
    return None


def replace_term(t, pred, new):
    """copy of term t with every subterm satisfying pred replaced by new (or new(subterm) when callable)"""
    if isinstance(t, tuple):
        if t and isinstance(t[0], str) and pred(t):
            return new(t) if callable(new) else new
        return tuple(replace_term(x, pred, new) for x in t)
    return t


def mk_comp(kind, elt, gens):
    """comprehension term; a single-generator comprehension over another single-generator comprehension is fused:
    [f(r) for r in [g(c) for c in xs if p(c)] if q(r)]  ==  [f(g(c)) for c in xs if p(c) if q(g(c))]"""
    if len(gens) == 1:
        it, conds = gens[0]
        if it[0] in ('listcomp', 'genexp') and len(it[2]) == 1:
            inner_elt, (inner_it, inner_conds) = it[1], it[2][0]
            is_elem = lambda x: x[0] == 'elem' and x[1] == it
            elt2 = replace_term(elt, is_elem, inner_elt)
            conds2 = tuple(replace_term(c, is_elem, inner_elt) for c in conds)
            return mk_comp(kind, elt2, ((inner_it, tuple(inner_conds) + conds2),))
    return (kind, elt, gens)


SKIP = ('skip-iteration',)


def _branches_without_exit(loop):
    """does the loop body contain an `if` both of whose outcomes go on with the iteration?  (unrolling n iterations of such
    a body multiplies the paths by 2 per iteration)"""
    for n in ast.walk(loop):
        if isinstance(n, ast.If) and n is not loop:
            exits = any(isinstance(x, (ast.Return, ast.Raise, ast.Break, ast.Continue)) for b in n.body for x in ast.walk(b))
            if not exits:
                return True
    return False


def _literal_seq(t, limit=40):
    """items of a literal tuple / list term whose members are constants (or tuples of constants), else None"""
    def lit(x):
        return x[0] == 'const' or (x[0] in ('tuple', 'list') and all(lit(y) for y in x[1])) or \
            (x[0] == 'dict' and all(k is not None and lit(k) and lit(v) for k, v in x[1])) or \
            (x[0] == 'name') or (x[0] == 'call' and x[1][0] == 'name' and all(lit(y) for y in x[2]) and all(lit(v) for _, v in x[3])) or \
            (x[0] == 'call' and x[1] == ('attr', ('name', 're'), 'compile') and all(lit(y) for y in x[2]))
    if t[0] in ('tuple', 'list') and 0 < len(t[1]) <= limit and all(lit(x) for x in t[1]) and not all(x[0] == 'name' for x in t[1]):
        return list(t[1])       # (a plain list of functions -- a registry -- is iterated, not unrolled)
    return None


def _record_fields_of(cls):
    """[(field, default AST or None)] of a NamedTuple / dataclass class definition without hand-written __init__, else None"""
    if any(isinstance(s_, ast.FunctionDef) and s_.name in ('__init__', '__new__') for s_ in cls.body):
        return None
    is_record = any('NamedTuple' in src(b) for b in cls.bases) or any('dataclass' in src(d) for d in cls.decorator_list)
    fields = [(s_.target.id, s_.value) for s_ in cls.body if isinstance(s_, ast.AnnAssign) and isinstance(s_.target, ast.Name)]
    return fields if fields and is_record else None


def _positional(sig, args, kws):
    """f(a, y=2, x=1) with signature (w, x, y) -> f(a, 1, 2): keyword arguments move to their positions as long as the
    positions are filled without gap; whatever cannot be placed stays a keyword"""
    args = list(args)
    kw = dict(kws)
    if len(kw) != len(kws) or len(args) > len(sig):
        return args, kws
    for name in sig[len(args):]:
        if name in kw:
            args.append(kw.pop(name))
        else:
            break
    rest = tuple((k, v) for k, v in kws if k in kw)
    return args, rest


def _mutable_literal(t):
    if t[0] in ('list', 'dict'):
        return True
    if t[0] == 'set':
        return True
    return False


_READ_METHODS = {'get', 'items', 'keys', 'values', 'index', 'count', 'copy', '__contains__', 'issubset', 'issuperset',
                 'union', 'intersection', 'difference', 'isdisjoint', 'join', 'startswith', 'endswith'}
_READ_FUNCS = {'len', 'sorted', 'set', 'frozenset', 'tuple', 'list', 'dict', 'enumerate', 'iter', 'any', 'all', 'max', 'min',
               'sum', 'reversed', 'zip', 'map', 'filter', 'isinstance', 'repr', 'str'}


def _read_only_uses(modtree, name):
    """every occurrence of module-level `name` (other than its one binding) is a read that cannot mutate or leak it"""
    binds = 0
    for n in ast.walk(modtree):
        if isinstance(n, (ast.Global, ast.Nonlocal)) and name in n.names:
            return False
        if isinstance(n, ast.arg) and n.arg == name:
            return False
        if not (isinstance(n, ast.Name) and n.id == name):
            continue
        if not isinstance(n.ctx, ast.Load):
            binds += 1
            if binds > 1:
                return False
            continue
        par = getattr(n, '_parent', None)
        if isinstance(par, ast.Subscript) and par.value is n and isinstance(par.ctx, ast.Load):
            continue
        if isinstance(par, ast.Compare) and n in par.comparators and all(isinstance(o, (ast.In, ast.NotIn)) for o in par.ops):
            continue
        if isinstance(par, ast.Attribute) and par.attr in _READ_METHODS:
            continue
        if isinstance(par, (ast.For, ast.comprehension)) and par.iter is n:
            continue
        if isinstance(par, ast.Call) and n in par.args and isinstance(par.func, ast.Name) and par.func.id in _READ_FUNCS:
            continue
        return False
    return True


def _expression_like(fd):
    """does the body consist only of what inline_expr folds into a term (returns, ifs, assignments, calls)?  A body that
    branches may not also act (statement calls, assertions, stores into objects): folded into one conditional value,
    the actions of both branches would land on one path."""
    def ok(stmts):
        for x in stmts:
            if isinstance(x, (ast.Return, ast.Assign, ast.AnnAssign, ast.Expr, ast.Pass, ast.Assert)):
                continue
            if isinstance(x, ast.If):
                if not ok(x.body) or not ok(x.orelse):
                    return False
                continue
            return False
        return True
    if not ok(fd.body):
        return False
    branches = any(isinstance(n, ast.If) for n in ast.walk(fd))
    if branches:
        for n in ast.walk(fd):
            if isinstance(n, ast.Assert):
                return False
            if isinstance(n, ast.Expr) and not isinstance(n.value, ast.Constant):
                return False
            if isinstance(n, (ast.Assign, ast.AugAssign)):
                tg = n.targets if isinstance(n, ast.Assign) else [n.target]
                if any(isinstance(t, (ast.Subscript, ast.Attribute)) for t in tg):
                    return False
    return True


def _chooser_like(fd):
    """a body that only chooses a value: ifs, returns, raises, assignments to plain local names"""
    def ok(stmts):
        for x in stmts:
            if isinstance(x, (ast.Return, ast.Raise, ast.Pass)):
                continue
            if isinstance(x, ast.Expr) and isinstance(x.value, ast.Constant):
                continue
            if isinstance(x, ast.Assign) and all(isinstance(t_, ast.Name) for t_ in x.targets):
                continue
            if isinstance(x, ast.If):
                if not ok(x.body) or not ok(x.orelse):
                    return False
                continue
            return False
        return True
    return ok(fd.body)


def _is_closure(fd):
    """defined inside another function (at any depth of its statements)"""
    p = getattr(fd, '_parent', None)
    while p is not None:
        if isinstance(p, (ast.FunctionDef, ast.AsyncFunctionDef)):
            return True
        if isinstance(p, (ast.ClassDef, ast.Module)):
            return False
        p = getattr(p, '_parent', None)
    return False


def _loops_only(fd):
    """straight-line body with loops (no branching): the bounded-loop case inline_expr unrolls"""
    return not any(isinstance(n, (ast.If, ast.Try, ast.With)) for n in ast.walk(fd))


def _forkable(fd):
    """can the body be run by the statement walker (no generators / nested class tricks)?"""
    for n in ast.walk(fd):
        if isinstance(n, (ast.Yield, ast.YieldFrom, ast.Await, ast.Global, ast.Nonlocal)):
            return False
    return True


def concat_str(l, r):
    """'a' + x + 'b'  ->  one template term, when at least one side is known to be text"""
    def parts(t):
        if t[0] == 'const' and isinstance(t[1], str):
            return [t[1]] if t[1] else []
        if t[0] == 'fstr':
            return list(t[1])
        if t[0] == 'call' and t[1] == ('name', 'str') and len(t[2]) == 1 and not t[3]:
            return [t[2][0]]
        return None
    a, b = parts(l), parts(r)
    if a is None and b is None:
        return None
    if a is None:
        if l[0] == 'const':
            return None
        a = [l]
    if b is None:
        if r[0] == 'const':
            return None
        b = [r]
    return mk_fstr(a + b)


def mk_fstr(parts):
    out = []
    flat = []
    for p in parts:
        if isinstance(p, tuple) and p and p[0] == 'fstr':
            flat.extend(p[1])           # a template inside a template is one template
        elif isinstance(p, tuple) and p and p[0] == 'const' and isinstance(p[1], str):
            flat.append(p[1])
        else:
            flat.append(p)
    for p in flat:
        if isinstance(p, str) and out and isinstance(out[-1], str):
            out[-1] += p
        elif isinstance(p, str) and not p:
            continue
        else:
            if isinstance(p, tuple) and p[0] == 'call' and p[1] == ('name', 'str') and len(p[2]) == 1 and not p[3]:
                p = p[2][0]      # str(x) inside a template formats like x
            out.append(p)
    if all(isinstance(p, str) for p in out):
        return ('const', ''.join(out))        # a template whose holes were all filled with constants is that text
    return ('fstr', tuple(out))


def str_parts(t):
    """canonical parts list of a text-building term (f-string, + chains, sep.join of a literal sequence, str(x)),
    adjacent literals merged; None when `t` is not recognisably text"""
    def go(t):
        if t[0] == 'const' and isinstance(t[1], str):
            return [t[1]]
        if t[0] == 'fstr':
            out = []
            for p_ in t[1]:
                if isinstance(p_, str):
                    out.append(p_)
                else:
                    sub = go(p_)
                    out.extend(sub if sub is not None else [p_])
            return out
        if t[0] == 'binop' and t[1] == '+':
            a, b = go(t[2]), go(t[3])
            if a is None and b is None:
                return None
            return (a if a is not None else [t[2]]) + (b if b is not None else [t[3]])
        if t[0] == 'call' and t[1] == ('name', 'str') and len(t[2]) == 1 and not t[3]:
            sub = go(t[2][0])
            return sub if sub is not None else [t[2][0]]
        if t[0] == 'call' and t[1][0] == 'attr' and t[1][2] == 'join' and t[1][1][0] == 'const' \
                and isinstance(t[1][1][1], str) and len(t[2]) == 1 and t[2][0][0] in ('list', 'tuple'):
            out = []
            for i, e in enumerate(t[2][0][1]):
                if i:
                    out.append(t[1][1][1])
                sub = go(e)
                out.extend(sub if sub is not None else [e])
            return out
        return None
    parts = go(t)
    if parts is None:
        return None
    out = []
    for p_ in parts:
        if isinstance(p_, str):
            if not p_:
                continue
            if out and isinstance(out[-1], str):
                out[-1] += p_
                continue
        out.append(p_)
    return out


def format_call(fmt, args, kws):
    """'{}={}'.format(a, b) -> template term (only plain {} / {0} / {name} fields without conversions)"""
    import string
    parts = []
    auto = 0
    try:
        for lit, field, spec, conv in string.Formatter().parse(fmt):
            if lit:
                parts.append(lit)
            if field is None:
                continue
            if spec or conv:
                return None
            if field == '':
                if auto >= len(args):
                    return None
                parts.append(args[auto])
                auto += 1
            elif field.isdigit():
                if int(field) >= len(args):
                    return None
                parts.append(args[int(field)])
            else:
                kw = dict(kws)
                if field not in kw:
                    return None
                parts.append(kw[field])
    except ValueError:
        return None
    return mk_fstr(parts)


def percent_format(fmt, arg):
    import re as _re
    if _re.search(r'%[^s%]', fmt):
        return None
    n = fmt.count('%s')
    vals = list(arg[1]) if arg[0] == 'tuple' else [arg]
    if n != len(vals):
        return None
    parts = []
    for i, piece in enumerate(fmt.split('%s')):
        if piece:
            parts.append(piece.replace('%%', '%'))
        if i < n:
            parts.append(vals[i])
    return mk_fstr(parts)


class SymExec(object):
    def __init__(self, fn, unroll=1, on_call=None, on_stmt=None, init_env=None, implicit_except=True,
                 watch_attrs=None, inline=True, no_inline=(), fold_loops=True, inline_also=()):
        self.fn = fn
        self.unroll = unroll
        self.on_call = on_call
        self.on_stmt = on_stmt
        self.init_env = init_env or {}
        self.implicit_except = implicit_except
        self.count = 0
        self.watch_attrs = watch_attrs or ()
        a = getattr(fn, 'args', None)
        self._params = set()
        if a is not None:
            self._params = {x.arg for x in a.posonlyargs + a.args + a.kwonlyargs}
            if a.vararg:
                self._params.add(a.vararg.arg)
            if a.kwarg:
                self._params.add(a.kwarg.arg)
        self._guard = []    # conditions under which the expression being evaluated is reached (IfExp / and / or)
        # interprocedural context: private helpers of the same module / class / enclosing function are inlined
        self.inline = inline
        self.fold_loops = fold_loops
        self.no_inline = (set(no_inline) | VOCABULARY) - set(inline_also)     # inline_also: rule-level names this analysis wants opened
        self._stack = [fn]
        self._consts_by_mod = {}
        self._fn_by_id = None

    @staticmethod
    def _context(node):
        """(module tree, innermost enclosing class) of an AST node"""
        cls = None
        while getattr(node, '_parent', None) is not None:
            node = node._parent
            if isinstance(node, ast.ClassDef) and cls is None:
                cls = node
        return (node if isinstance(node, ast.Module) else None), cls

    @property
    def modtree(self):
        """module of the function being walked right now (an inlined helper may live in another module)"""
        return self._context(self._stack[-1])[0]

    @property
    def cls(self):
        return self._context(self._stack[-1])[1]

    # -- expressions -------------------------------------------------------
    def ev(self, n, st):
        E = lambda x: self.ev(x, st)
        if isinstance(n, ast.Constant):
            return ('const', n.value)
        if isinstance(n, ast.Name):
            if n.id in st.env:
                v = st.env[n.id]
                if not (v[0] == 'call' and v[1] == ('name', '__cdecl__')):
                    return v
                # a declared C struct: if fields were assigned since, show them (below); else the declaration itself
                if not any(isinstance(k, str) and k.startswith(n.id + '.') for k in st.env):
                    return v
            pre = n.id + '.'
            fields = () if n.id in self._params else tuple(sorted((k[len(pre):], v) for k, v in st.env.items()
                                  if isinstance(k, str) and k.startswith(pre) and '.' not in k[len(pre):]))
            if fields:      # a record assembled field by field (e.g. a cdef struct / pair)
                return ('record', n.id, fields)
            if n.id not in self._params:
                ob = self._outer_binding(n.id, st)
                if ob is not None:
                    return ob
            c = self.module_const(n.id)
            if c is not None:
                if c[0] == 'call' and c[1] in (('name', 'itemgetter'), ('name', 'attrgetter')):
                    return c            # a getter: applied, it is the lookups it abbreviates
                if c[0] == 'call' and c[1][0] == 'name' and c[1][1] not in ('float', 'int', 'str', 'frozenset', 'set', 'tuple') and self.inline:
                    # a constant made by a helper of the module: the value the helper computes from the literals
                    cache = self.__dict__.setdefault('_helper_consts', {})
                    if n.id not in cache:
                        cache[n.id] = None
                        fd_ = self.resolve(c[1], st)
                        if fd_ is not None and (_expression_like(fd_) or _loops_only(fd_)):
                            probe = st.copy()
                            mark = len(probe.events)
                            r_ = self.inline_expr(fd_, c[1], c[2], c[3], probe)
                            pure_ = all(e_[0] == 'call' and (e_[1][1] == ('attr', ('name', 'Category'), 'parse') or
                                                             (e_[1][1][0] == 'name' and e_[1][1][1][:1].isupper()))      # parsing a text, building a record
                                        for e_ in probe.events[mark:])
                            if r_ is not None and pure_ and not any(x[0] == 'ifexp' for x in subterms(r_)):
                                cache[n.id] = r_
                    if cache[n.id] is not None:
                        return cache[n.id]
                    if self.record_fields(c[1]) is not None or self._class_named(c[1][1]) is not None:
                        return c            # a record built from literals: the constructor call is the value
                    return ('name', self.canonical(n.id))
                return c
            return ('name', self.canonical(n.id))
        if isinstance(n, ast.Attribute):
            b = E(n.value)
            if n.attr in self.watch_attrs:
                ev_ = ('getattr', b, n.attr, n)
                st.events.append(ev_)
                if self._guard:
                    st.data.setdefault('eguards', {})[id(ev_)] = (ev_, tuple(self._guard))
            if b[0] == 'record':
                for k, v in b[2]:
                    if k == n.attr:
                        return v
            if b[0] == 'call' and b[1][0] == 'name':
                # field of a value built by a record constructor (NamedTuple / dataclass): the argument it was given
                flds = self.record_fields(b[1])
                if flds is not None and n.attr in flds:
                    i_ = flds.index(n.attr)
                    if i_ < len(b[2]):
                        return b[2][i_]
                    for k, v in b[3]:
                        if k == n.attr:
                            return v
                    d_ = self.record_default(b[1], n.attr)
                    if d_ is not None:
                        return d_
            t = ('attr', b, n.attr)
            k = dotted_key(t)
            if k is not None and k in st.env:
                return st.env[k]
            if b == ('name', 'self') and self.inline and self.cls is not None and n.attr not in self.no_inline and n.attr not in self.watch_attrs:
                # a read-only property of the class that only chooses (`@property def next_node: return self.a if c else self.b`)
                pf = [s_ for s_ in self.cls.body if isinstance(s_, ast.FunctionDef) and s_.name == n.attr
                      and any(src(d) == 'property' for d in s_.decorator_list)]
                if len(pf) == 1 and pf[0] not in self._stack and _chooser_like(pf[0]) and \
                        not any(isinstance(x, (ast.AugAssign,)) or (isinstance(x, ast.Assign) and any(isinstance(t_, (ast.Attribute, ast.Subscript)) for t_ in x.targets))
                                for x in ast.walk(pf[0])):
                    mark = len(st.events)
                    r_ = self.inline_expr(pf[0], t, (), (), st, allow_raise=True)
                    if r_ is not None:
                        return r_
                    del st.events[mark:]
            return t
        if isinstance(n, ast.Subscript):
            b = E(n.value)
            i = E(n.slice)
            t = ('sub', b, i)
            key = ('@sub', b, i)
            if key in st.env:
                return st.env[key]
            if b[0] in ('tuple', 'list') and i[0] == 'const' and isinstance(i[1], int) and not isinstance(i[1], bool) \
                    and -len(b[1]) <= i[1] < len(b[1]) and not any(x[0] == 'star' for x in b[1]):
                return b[1][i[1]]       # element of a display
            if b[0] in ('tuple', 'list') and i[0] == 'slice' and i[3] is None and not any(x[0] == 'star' for x in b[1]) \
                    and all(z is None or (z[0] == 'const' and type(z[1]) is int) for z in (i[1], i[2])) and getattr(self, '_in_helper', 0):
                return (b[0], tuple(b[1][slice(i[1][1] if i[1] else None, i[2][1] if i[2] else None)]))      # a piece of a display
            if b[0] == 'dict' and b[1] and all(k is not None and k[0] == 'const' for k, _ in b[1]):
                if i[0] == 'const':
                    for k_, v_ in b[1]:
                        if k_ == i:
                            return v_
                else:
                    out_ = ('sym', 'key-error', show(i))
                    for k_, v_ in reversed(b[1]):
                        out_ = ('ifexp', ('cmp', '==', i, k_), v_, out_)
                    return out_
            return t
        if isinstance(n, ast.Slice):
            return ('slice', E(n.lower) if n.lower else None, E(n.upper) if n.upper else None,
                    E(n.step) if n.step else None)
        if isinstance(n, ast.Call):
            f = E(n.func)
            args = []
            for a in n.args:
                if isinstance(a, ast.Starred):
                    v = E(a.value)
                    if v[0] in ('tuple', 'list'):
                        args.extend(v[1])
                    elif v[0] == 'call' and v[1][0] == 'name' and v[1][1][:1].isupper() and v[2] and not v[3] \
                            and (self.record_fields(v[1]) is not None or self._class_named(v[1][1]) is None):
                        args.extend(v[2])       # *Record(a, b): the fields of a NamedTuple-like record, in order
                    else:
                        args.append(('star', v))
                else:
                    args.append(E(a))
            kws = tuple((kw.arg, E(kw.value)) for kw in n.keywords)
            if any(k is None and v[0] == 'dict' and v[1] and all(kk is not None and kk[0] == 'const' and isinstance(kk[1], str) for kk, _ in v[1]) for k, v in kws):
                # f(**{'a': x, 'b': y}) is f(a=x, b=y)
                kws = tuple(kv for k, v in kws for kv in (tuple((kk[1], vv) for kk, vv in v[1])
                                                           if k is None and v[0] == 'dict' and v[1] and all(kk is not None and kk[0] == 'const' and isinstance(kk[1], str) for kk, _ in v[1])
                                                           else ((k, v),)))
            if kws and all(k is not None for k, _ in kws) and not any(a_[0] == 'star' for a_ in args):
                sig = self.record_fields(f) or self.signature(f)
                if sig is not None:
                    args, kws = _positional(sig, args, kws)
            if f in (('name', 'cast'), ('attr', ('name', 'typing'), 'cast')) and len(args) == 2 and not kws and (f[0] == 'attr' or self.resolve(f, st) is None):
                return args[1]          # typing.cast(T, v) is v
            if f[0] == 'lambda' and not kws and not any(a_[0] == 'star' for a_ in args) and self.inline:
                # calling a lambda made on this path: its body, with the arguments for its parameters
                got_ = st.data.get('lambdas', {}).get(f[1])
                if got_ is not None:
                    ln_, _snap, env0_ = got_
                    la_ = ln_.args
                    if not (la_.vararg or la_.kwarg or la_.kwonlyargs or la_.posonlyargs) and len(la_.args) - len(la_.defaults) <= len(args) <= len(la_.args):
                        sub_ = State()
                        sub_.env = dict(env0_)
                        for i_, a_ in enumerate(la_.args):
                            sub_.env[a_.arg] = args[i_] if i_ < len(args) else self.ev(la_.defaults[i_ - (len(la_.args) - len(la_.defaults))], st)
                        sub_.conds, sub_.events, sub_.data = st.conds, st.events, st.data
                        return self.ev(ln_.body, sub_)
            if f[0] == 'attr' and f[1] == ('name', 'operator') and not kws and not any(a_[0] == 'star' for a_ in args):
                # the function forms of the operators: operator.eq(a, b) is a == b, operator.xor(a, b) is a ^ b, ..
                _cmp = {'eq': '==', 'ne': '!=', 'lt': '<', 'le': '<=', 'gt': '>', 'ge': '>=', 'is_': 'is', 'is_not': 'is not'}
                _bin = {'xor': '^', 'and_': '&', 'or_': '|', 'add': '+', 'sub': '-', 'mul': '*', 'truediv': '/', 'floordiv': '//', 'mod': '%'}
                if f[2] in _cmp and len(args) == 2:
                    return ('cmp', _cmp[f[2]], args[0], args[1])
                if f[2] in _bin and len(args) == 2:
                    return ('binop', _bin[f[2]], args[0], args[1])
                if f[2] == 'contains' and len(args) == 2:
                    return ('cmp', 'in', args[1], args[0])
                if f[2] == 'getitem' and len(args) == 2:
                    return ('sub', args[0], args[1])
                if f[2] in ('not_',) and len(args) == 1:
                    return ('unop', 'not', args[0])
            if f[0] == 'call' and f[1] in (('name', 'attrgetter'), ('attr', ('name', 'operator'), 'attrgetter')) and len(f[2]) == 1 \
                    and not f[3] and len(args) == 1 and not kws:
                # attrgetter('a')(x) is x.a; with a conditional name, the conditional attribute
                def _ag(nm):
                    if nm[0] == 'const' and isinstance(nm[1], str) and nm[1].isidentifier():
                        return ('attr', args[0], nm[1])
                    if nm[0] == 'ifexp':
                        a_, b_ = _ag(nm[2]), _ag(nm[3])
                        return ('ifexp', nm[1], a_, b_) if a_ is not None and b_ is not None else None
                    return None
                got_ = _ag(f[2][0])
                if got_ is not None:
                    return got_
            if f[0] == 'call' and f[1] in (('name', 'itemgetter'), ('attr', ('name', 'operator'), 'itemgetter')) and f[2] and not f[3] and len(args) == 1 and not kws \
                    and all(k_[0] == 'const' for k_ in f[2]):
                # itemgetter(k)(x) is x[k]; itemgetter(k1, k2, ..)(x) is (x[k1], x[k2], ..)
                if len(f[2]) == 1:
                    return ('sub', args[0], f[2][0])
                return ('tuple', tuple(('sub', args[0], k_) for k_ in f[2]))
            if f in (('name', 'replace'), ('attr', ('name', 'dataclasses'), 'replace')) and len(args) == 1 and kws and all(k is not None for k, _ in kws):
                # dataclasses.replace on the two category records: a copy with the named fields exchanged --
                # Functor: z.functor(l, r) keeps z's slash;  Atom: Atom(x.base, f)
                kd = dict(kws)
                if set(kd) == {'left', 'right'}:
                    return ('call', ('attr', args[0], 'functor'), (kd['left'], kd['right']), ())
                if set(kd) == {'feature'}:
                    return ('call', ('name', 'Atom'), (('attr', args[0], 'base'), kd['feature']), ())
            _PARTIAL = (('name', 'partial'), ('attr', ('name', 'functools'), 'partial'))
            if f[0] == 'call' and f[1] in _PARTIAL and f[2] and not any(a_[0] == 'star' for a_ in f[2]):
                # calling functools.partial(g, *fixed, **fixedkw) is calling g with the fixed arguments first
                f, args, kws = f[2][0], list(f[2][1:]) + list(args), tuple(f[3]) + tuple(kws)
            elif f[0] == 'attr' and f[2] == 'apply_async' and args and args[0][0] == 'call' and args[0][1] in _PARTIAL and args[0][2] \
                    and not any(a_[0] == 'star' for a_ in args[0][2]) and all(k_ is not None for k_, _ in args[0][3]):
                # ... and so is handing it to a pool: the worker runs g(*fixed, *args, **fixedkw, **kwds)
                pt_ = args[0]
                kd_ = dict(kws)
                pos_ = args[1] if len(args) > 1 else kd_.get('args')
                kwd_ = args[2] if len(args) > 2 else kd_.get('kwds')
                if (pos_ is None or pos_[0] in ('tuple', 'list')) and (kwd_ is None or kwd_[0] == 'dict') and len(args) <= 3:
                    fixed_kw = ('dict', tuple((('const', k_), v_) for k_, v_ in pt_[3]))
                    new_pos = ('tuple', tuple(pt_[2][1:]) + (tuple(pos_[1]) if pos_ is not None else ()))
                    new_kwd = ('dict', (((None, fixed_kw),) if pt_[3] else ()) + (tuple(kwd_[1]) if kwd_ is not None else ()))
                    args = [pt_[2][0]]
                    kws = tuple((k_, v_) for k_, v_ in kws if k_ not in ('args', 'kwds')) + (('args', new_pos), ('kwds', new_kwd))
            elif f[0] == 'attr' and f[2] == 'apply_async' and args and args[0][0] == 'name' and self.inline and 1 <= len(args) <= 3:
                # ... or a module-level worker whose body is one call (`def _work(i, chunk, args, kwargs): ..; return
                # g(a, b, *args, **kwargs, k=i)`): the pool runs that call
                kd_ = dict(kws)
                pos_ = args[1] if len(args) > 1 else kd_.get('args')
                kwd_ = args[2] if len(args) > 2 else kd_.get('kwds')
                fd_ = self.resolve(args[0], st)
                if fd_ is not None and (pos_ is None or pos_[0] in ('tuple', 'list')) and (kwd_ is None or (kwd_[0] == 'dict' and all(
                        k_ is not None and k_[0] == 'const' and isinstance(k_[1], str) for k_, _ in kwd_[1]))) \
                        and not any(a_[0] == 'star' for a_ in (pos_[1] if pos_ is not None else ())):
                    n_ev_ = len(st.events)
                    r_ = self.inline_expr(fd_, args[0], tuple(pos_[1]) if pos_ is not None else (), tuple((k_[1], v_) for k_, v_ in kwd_[1]) if kwd_ is not None else (), st)
                    if r_ is not None and r_[0] == 'call' and not any(a_[0] == 'star' for a_ in r_[2]):
                        del st.events[n_ev_:]        # the worker's call happens in the pool, not here
                        rk_ = list(r_[3])
                        for d_ in (pos_[1] if pos_ is not None else ()):
                            # an option dictionary handed to the worker and passed on with ** stays one dictionary
                            if d_[0] == 'dict' and d_[1] and all(k_ is not None and k_[0] == 'const' and isinstance(k_[1], str) for k_, _ in d_[1]):
                                run_ = [(k_[1], v_) for k_, v_ in d_[1]]
                                for i_ in range(len(rk_) - len(run_) + 1):
                                    if rk_[i_:i_ + len(run_)] == run_:
                                        rk_[i_:i_ + len(run_)] = [(None, d_)]
                                        break
                        new_kwd = ('dict', tuple(((None, v_) if k_ is None else (('const', k_), v_)) for k_, v_ in rk_))
                        args = [r_[1]]
                        kws = tuple((k_, v_) for k_, v_ in kws if k_ not in ('args', 'kwds')) + (('args', ('tuple', tuple(r_[2]))), ('kwds', new_kwd))
            if f[0] == 'attr' and f[2] == 'clear_features' and not kws and args and all(a_[0] == 'const' and isinstance(a_[1], str) for a_ in args):
                # erasing feature names one after the other is erasing all of them: x.clear_features('nb').clear_features('X')
                # reads x.clear_features('X', 'nb') (names in sorted order, so that one spelling stands for the set)
                names_ = {a_[1] for a_ in args}
                recv_ = f[1]
                while recv_[0] == 'call' and recv_[1][0] == 'attr' and recv_[1][2] == 'clear_features' and not recv_[3] and recv_[2] \
                        and all(a_[0] == 'const' and isinstance(a_[1], str) for a_ in recv_[2]):
                    names_ |= {a_[1] for a_ in recv_[2]}
                    recv_ = recv_[1][1]
                if recv_ is not f[1] or [a_[1] for a_ in args] != sorted(names_):
                    f = ('attr', recv_, 'clear_features')
                    args = [('const', n_) for n_ in sorted(names_)]
            if f == ('name', 'int') and len(args) == 1 and not kws and args[0][0] == 'unop' and args[0][1] == 'not':
                return ('ifexp', args[0][2], ('const', 0), ('const', 1))      # int(not b) is 0 if b else 1
            if f == ('name', 'len') and len(args) == 1 and not kws and args[0][0] == 'const' and isinstance(args[0][1], str):
                return ('const', len(args[0][1]))       # the length of a constant text
            if f == ('name', 'len') and len(args) == 1 and not kws and args[0][0] in ('list', 'tuple') and not any(x_[0] == 'star' for x_ in args[0][1]) \
                    and getattr(self, '_in_helper', 0):
                return ('const', len(args[0][1]))       # ... of a display built up inside a helper that is being evaluated
            if f == ('name', 'Unification') and args:
                # the matcher takes its patterns as text or as parsed categories: the same matcher either way
                args = [a_[2][0] if (a_[0] == 'call' and a_[1] == ('attr', ('name', 'Category'), 'parse') and len(a_[2]) == 1
                                     and a_[2][0][0] == 'const' and not a_[3]) else a_ for a_ in args]
            t = ('call', f, tuple(args), kws)
            if f[0] == 'ifexp' and f[2][0] != 'ifexp' or (f[0] == 'ifexp' and f[3][0] in ('name', 'func', 'sym', 'ifexp')):
                # calling a function chosen by a conditional (a dispatch table lookup) = choosing among the calls
                def spread(ft):
                    if ft[0] == 'ifexp':
                        self._guard.append((ft[1], True))
                        a_ = spread(ft[2])
                        self._guard[-1] = (ft[1], False)
                        b_ = spread(ft[3])
                        self._guard.pop()
                        return ('ifexp', ft[1], a_, b_)
                    if ft[0] == 'sym' and ft[1] == 'key-error':
                        return ft
                    ct = ('call', ft, tuple(args), kws)
                    fd_ = self.resolve(ft, st) if self.inline else None
                    if fd_ is not None and getattr(self, 'fork_filter', None) is not None and not self.fork_filter(st, ft):
                        fd_ = None
                    if fd_ is not None:
                        r_ = self.inline_expr(fd_, ft, tuple(args), kws, st)
                        if r_ is not None:
                            return r_
                    ev2_ = ('call', ct, n)
                    st.events.append(ev2_)
                    if self._guard:
                        st.data.setdefault('eguards', {})[id(ev2_)] = (ev2_, tuple(self._guard))
                    return ct
                return spread(f)
            if f[0] == 'attr' and f[2] == '_asdict' and not args and not kws and f[1][0] == 'call' and f[1][1][0] == 'name':
                flds = self.record_fields(f[1][1])
                if flds is not None and len(f[1][2]) + len(f[1][3]) == len(flds):
                    vals_ = list(f[1][2]) + [dict(f[1][3]).get(x) for x in flds[len(f[1][2]):]]
                    if all(v is not None for v in vals_):
                        return ('dict', tuple((('const', k_), v_) for k_, v_ in zip(flds, vals_)))
            if f[0] == 'attr' and f[1] == ('name', 'operator') and f[2] in _OPERATOR_FNS and len(args) == _OPERATOR_FNS[f[2]][0] and not kws:
                kind_, op_ = _OPERATOR_FNS[f[2]][1:]
                if kind_ == 'cmp':
                    if op_ == 'in-rev':
                        return ('cmp', 'in', args[1], args[0])
                    return ('cmp', op_, args[0], args[1])
                if kind_ == 'binop':
                    return ('binop', op_, args[0], args[1])
                if kind_ == 'unop':
                    return ('unop', op_, args[0])
                if kind_ == 'sub':
                    return ('sub', args[0], args[1])
            if f == ('name', 'dict') and len(args) == 1 and kws and all(k is not None for k, _ in kws) and args[0][0] in ('dict', 'name', 'call'):
                # dict(base, k=v) is {**base, 'k': v}
                return ('dict', ((None, args[0]),) + tuple((('const', k), v) for k, v in kws))
            if f == ('name', 'dict') and not args and kws and all(k is not None for k, _ in kws):
                return ('dict', tuple((('const', k), v) for k, v in kws))      # dict(a=1) is {'a': 1}
            if f in (('attr', ('name', 'chain'), 'from_iterable'), ('attr', ('attr', ('name', 'itertools'), 'chain'), 'from_iterable')) \
                    and len(args) == 1 and not kws and args[0][0] in ('genexp', 'listcomp'):
                # chain.from_iterable(E for t in T) yields what (x for t in T for x in E) yields
                g_ = args[0]
                return ('genexp', ('elem', g_[1], None), tuple(g_[2]) + ((g_[1], ()),))
            if f in (('name', 'all'), ('name', 'any')) and len(args) == 1 and not kws and args[0][0] in ('genexp', 'listcomp') \
                    and len(args[0][2]) == 1 and not args[0][2][0][1]:
                # all(p(x) for x in <a few known items>) is the conjunction it spells out
                it_ = args[0][2][0][0]
                items_ = self.iter_items(it_, st, limit=6)
                if items_:
                    def inst(item):
                        r_ = replace_term(args[0][1], lambda x: x[0] == 'elem' and x[1] == it_, item)
                        return replace_term(r_, lambda x: x[0] == 'unpack' and x[1][0] in ('tuple', 'list') and isinstance(x[2], int) and x[2] < len(x[1][1]),
                                            lambda x: x[1][1][x[2]])
                    parts = tuple(inst(i_) for i_ in items_)
                    return ('bool', 'and' if f[1] == 'all' else 'or', parts) if len(parts) > 1 else parts[0]
            if f == ('name', 'list') and len(args) == 1 and not kws and args[0][0] == 'call' and args[0][1] in (('name', 'tuple'), ('name', 'list')) \
                    and len(args[0][2]) == 1 and not args[0][3] and args[0][2][0][0] in ('genexp', 'listcomp'):
                return ('listcomp',) + args[0][2][0][1:]        # list(tuple(<comprehension>)): the same elements in a list
            if f == ('name', 'list') and len(args) == 1 and not kws and args[0][0] in ('genexp', 'listcomp'):
                return ('listcomp',) + args[0][1:]
            if f[0] == 'attr' and f[2] == 'get' and f[1][0] == 'dict' and 1 <= len(args) <= 2 and not kws \
                    and all(k is not None and k[0] == 'const' for k, _ in f[1][1]):
                # lookup in a literal table = the chain of comparisons it abbreviates
                out_ = args[1] if len(args) == 2 else ('const', None)
                for k_, v_ in reversed(f[1][1]):
                    out_ = ('ifexp', ('cmp', '==', args[0], k_), v_, out_)
                return out_
            if f[0] == 'attr' and f[2] == 'get' and f[1][0] == 'dictcomp' and len(args) == 1 and not kws:
                # D.get(k) with the `is None` test that follows it is the spelling of `k in D` / D[k]  (logic.formula reads
                # `D[k] is None` on a comprehension-built D as `k not in D`)
                return ('sub', f[1], args[0])
            if f[0] == 'attr' and f[2] == 'format' and f[1][0] == 'const' and isinstance(f[1][1], str):
                ft = format_call(f[1][1], tuple(args), kws)
                if ft is not None:
                    return ft
            if f[0] == 'attr' and f[2] in ('append', 'extend') and isinstance(n.func, ast.Attribute) and isinstance(n.func.value, ast.Name) \
                    and f[1][0] == 'list' and len(args) == 1 and not kws and len(self._guard) <= getattr(self, '_guard_base', 0):
                # a list display bound to a local keeps growing: its later value is the display with the new element(s)
                if f[2] == 'append':
                    st.env[n.func.value.id] = ('list', f[1][1] + (args[0],))
                elif args[0][0] in ('list', 'tuple'):
                    st.env[n.func.value.id] = ('list', f[1][1] + tuple(args[0][1]))
            if f[0] == 'attr' and f[1][0] == 'alloc' and f[1][1] == 'list' and isinstance(n.func, ast.Attribute):
                # what a list created empty in this function holds, as long as every change to it is an append we saw
                cont = st.data.setdefault('contents', {})
                if f[2] == 'append' and len(args) == 1 and not kws and len(self._guard) <= getattr(self, '_guard_base', 0) and cont.get(f[1], ()) is not None:
                    cont[f[1]] = tuple(cont.get(f[1], ())) + (args[0],)
                elif f[2] in _INPLACE:
                    cont[f[1]] = None
            if f[0] == 'attr' and f[2] in _INPLACE and isinstance(n.func, ast.Attribute) and isinstance(n.func.value, ast.Name) \
                    and f[1][0] in ('listcomp', 'list', 'dictcomp', 'dict', 'setcomp', 'set', 'call', 'mutated') \
                    and st.env.get(n.func.value.id) == f[1] and not (f[1][0] == 'list' and f[2] in ('append', 'extend')):
                # an in-place change of a value held in a local: the local no longer denotes the term it was bound to
                st.env[n.func.value.id] = ('mutated', f[1], f[2], tuple(args))
            ev_ = ('call', t, n)
            st.events.append(ev_)
            if self._guard:
                st.data.setdefault('eguards', {})[id(ev_)] = (ev_, tuple(self._guard))
            if self.on_call is not None:
                r = self.on_call(st, t, n)
                if r is not None:
                    return r
            if self.inline:
                fd = self.resolve(f, st)
                if fd is not None:
                    r = self.inline_expr(fd, f, tuple(args), kws, st)
                    if r is not None:
                        return r
            return t
        if isinstance(n, ast.BinOp):
            l, r = E(n.left), E(n.right)
            if isinstance(n.op, ast.BitXor) and self.inline and l == ('name', 'self') and self.cls is not None and '__xor__' not in [getattr(x_, 'name', None) for x_ in self._stack]:
                # self ^ other inside a method of a class that defines ^: the class's own __xor__, read in place
                ft_ = ('attr', l, '__xor__')
                fd_ = self.resolve(ft_, st)
                if fd_ is not None and _expression_like(fd_):
                    r_ = self.inline_expr(fd_, ft_, (r,), (), st)
                    if r_ is not None:
                        return r_
            if isinstance(n.op, ast.Add):
                cat = concat_str(l, r)
                if cat is not None:
                    return cat
                if l[0] == r[0] == 'tuple':
                    return ('tuple', l[1] + r[1])       # (a, b) + (c,) is (a, b, c)
            if isinstance(n.op, ast.Mod) and l[0] == 'const' and isinstance(l[1], str):
                f = percent_format(l[1], r)
                if f is not None:
                    return f
            return ('binop', _BINOPS.get(type(n.op), '?'), l, r)
        if isinstance(n, ast.UnaryOp):
            v = E(n.operand)
            if isinstance(n.op, ast.USub) and v[0] == 'const' and isinstance(v[1], (int, float)) and not isinstance(v[1], bool):
                return ('const', -v[1])
            if isinstance(n.op, ast.Not) and v[0] == 'const':
                return ('const', not v[1])
            return ('unop', _UNOPS.get(type(n.op), '?'), v)
        if isinstance(n, ast.BoolOp):
            is_and = isinstance(n.op, ast.And)
            vals = []
            depth = len(self._guard)
            for i_, v in enumerate(n.values):
                t = E(v)
                last = i_ == len(n.values) - 1
                if t[0] == 'const' and not last:
                    # a constant operand decides here or drops out:  True and x = x,  False and x = False  (dually for or)
                    if bool(t[1]) == is_and:
                        continue
                    vals.append(t)
                    break
                vals.append(t)
                self._guard.append((t, is_and))     # later operands run only if this one was truthy (and) / falsy (or)
            del self._guard[depth:]
            if len(vals) == 1:
                return vals[0]
            return ('bool', 'and' if is_and else 'or', tuple(vals))
        if isinstance(n, ast.Compare):
            if len(n.ops) == 1:
                l_, r_ = E(n.left), E(n.comparators[0])
                op_ = _CMPOPS.get(type(n.ops[0]), '?')
                if l_[0] == 'const' and r_[0] == 'const' and op_ in ('==', '!=', 'is', 'is not') and type(l_[1]) == type(r_[1]):
                    return ('const', (l_[1] == r_[1]) == (op_ in ('==', 'is')))
                if l_[0] == 'const' and r_[0] == 'const' and op_ in ('<', '<=', '>', '>=') and type(l_[1]) is int and type(r_[1]) is int:
                    return ('const', {'<': l_[1] < r_[1], '<=': l_[1] <= r_[1], '>': l_[1] > r_[1], '>=': l_[1] >= r_[1]}[op_])
                if l_[0] == 'const' and op_ in ('in', 'not in') and r_[0] in ('tuple', 'list', 'set') and all(x[0] == 'const' for x in r_[1]):
                    return ('const', (l_ in r_[1]) == (op_ == 'in'))
                if op_ in ('is', 'is not') and ('const', None) in (l_, r_):
                    other_ = r_ if l_ == ('const', None) else l_
                    if other_[0] in ('cmp', 'bool', 'list', 'tuple', 'dict', 'set', 'fstr', 'listcomp', 'dictcomp') or \
                            (other_[0] == 'const' and other_[1] is not None) or (other_[0] == 'unop' and other_[1] == 'not'):
                        return ('const', op_ == 'is not')       # a truth value / a display is never None
                    if other_[0] == 'name' and getattr(self, '_in_helper', 0) and self._declared_not_none(other_[1]):
                        # inside a helper that was handed a parameter of the function under analysis whose annotation is a
                        # plain class (x: Category): the declared type says it is not None
                        return ('const', op_ == 'is not')
                return ('cmp', op_, l_, r_)
            parts = []
            left = n.left
            for op, c in zip(n.ops, n.comparators):
                parts.append(('cmp', _CMPOPS.get(type(op), '?'), E(left), E(c)))
                left = c
            return ('bool', 'and', tuple(parts))
        if isinstance(n, ast.IfExp):
            c = E(n.test)
            if c[0] == 'const':
                return E(n.body) if c[1] else E(n.orelse)
            self._guard.append((c, True))
            a = E(n.body)
            self._guard[-1] = (c, False)
            b = E(n.orelse)
            self._guard.pop()
            if c[0] == 'cmp' and c[1] == 'in' and c[3][0] in ('tuple', 'list', 'set') and 1 <= len(c[3][1]) <= 4 and all(k_[0] == 'const' for k_ in c[3][1]) \
                    and any(x_[0] == 'fstr' and any(isinstance(p_, tuple) and p_ == c[2] for p_ in x_[1]) for x_ in subterms(a)):
                # f'ADV{n}' if n in (1, 2) else 'ADV0': the text built from the tested value is one constant per listed value
                out_ = b
                for k_ in reversed(c[3][1]):
                    ak_ = replace_term(a, lambda x_: x_ == c[2], k_)
                    ak_ = replace_term(ak_, lambda x_: x_[0] == 'fstr', lambda x_: mk_fstr(
                        [str(p_[1]) if (isinstance(p_, tuple) and p_[0] == 'const' and type(p_[1]) in (int, str)) else p_ for p_ in x_[1]]))
                    out_ = ('ifexp', ('cmp', '==', c[2], k_), ak_, out_)
                return out_
            return ('ifexp', c, a, b)
        if isinstance(n, ast.Tuple):
            if n.elts and isinstance(n.elts[-1], ast.Starred) and not any(isinstance(x, ast.Starred) for x in n.elts[:-1]) and len(n.elts) > 1:
                # (a, b, *rest) is (a, b) + rest  (for a tuple `rest`; the spelling the rules know)
                rest_ = E(n.elts[-1].value)
                head_ = ('tuple', tuple(E(x) for x in n.elts[:-1]))
                if rest_[0] == 'tuple':
                    return ('tuple', head_[1] + rest_[1])
                return ('binop', '+', head_, rest_)
            return ('tuple', tuple(E(x) for x in n.elts))
        if isinstance(n, ast.List):
            return ('list', tuple(E(x) for x in n.elts))
        if isinstance(n, ast.Set):
            return ('set', tuple(E(x) for x in n.elts))
        if isinstance(n, ast.Dict):
            return ('dict', tuple((E(k) if k is not None else None, E(v)) for k, v in zip(n.keys, n.values)))
        if isinstance(n, ast.JoinedStr):
            parts = []
            for v in n.values:
                if isinstance(v, ast.Constant):
                    parts.append(str(v.value))
                elif isinstance(v, ast.FormattedValue):
                    parts.append(E(v.value))
            return mk_fstr(parts)
        if isinstance(n, ast.Lambda):
            # remembered on the path, with the bindings it closes over, so that a call of it can be read in place
            reg_ = st.data.setdefault('lambdas', {})
            key_ = src(n)
            free_ = {x_.id for x_ in ast.walk(n.body) if isinstance(x_, ast.Name)} - {a_.arg for a_ in n.args.args}
            snap_ = {k_: st.env.get(k_) for k_ in free_}
            if key_ in reg_ and reg_[key_] is not None and reg_[key_][1] != snap_:
                reg_[key_] = None           # the same text closing over other values: not told apart by the term
            elif key_ not in reg_:
                reg_[key_] = (n, snap_, dict(st.env))
            return ('lambda', key_)
        if isinstance(n, ast.ListComp) and len(n.generators) == 1 and not n.generators[0].ifs and any(isinstance(x_, ast.Call) for x_ in ast.walk(n.elt)) \
                and isinstance(n.generators[0].iter, ast.Call) and isinstance(n.generators[0].iter.func, ast.Name) and n.generators[0].iter.func.id == 'range':
            # [f() for _ in range(k)] with a small constant k: k evaluations of the element, in order -- the display it
            # spells out (each call is an event of its own, e.g. k reads of a cursor)
            probe_ = st.copy()
            items_ = self.iter_items(self.ev(n.generators[0].iter, probe_), probe_, limit=8)
            if items_ is not None and all(i_[0] == 'const' for i_ in items_):
                out_ = []
                saved_ = dict(st.env)
                for i_ in items_:
                    self.bind(n.generators[0].target, i_, st, n)
                    out_.append(self.ev(n.elt, st))
                for k_ in [k_ for k_ in st.env if k_ not in saved_]:
                    del st.env[k_]
                for k_, v_ in saved_.items():
                    if isinstance(k_, str) and '.' not in k_:
                        st.env[k_] = v_
                return ('list', tuple(out_))
        if isinstance(n, (ast.ListComp, ast.SetComp, ast.GeneratorExp)) and len(n.generators) >= 1:
            sub = st.copy()
            gens = []
            for g in n.generators:
                it = self.ev(g.iter, sub)
                self.bind(g.target, ('elem', it, g.iter.lineno), sub, n)
                conds = tuple(self.ev(c, sub) for c in g.ifs)
                gens.append((it, conds))
            elt = self.ev(n.elt, sub)
            for e in sub.events[len(st.events):]:
                st.events.append(('in-comp',) + tuple(e))
            st.data = sub.data      # hook state set while evaluating the element expression
            kind = {ast.ListComp: 'listcomp', ast.SetComp: 'setcomp', ast.GeneratorExp: 'genexp'}[type(n)]
            if kind in ('listcomp', 'genexp') and len(gens) == 1 and not gens[0][1] and (gens[0][0][0] in ('tuple', 'list', 'name') or (gens[0][0][0] == 'const' and isinstance(gens[0][0][1], str) and getattr(self, '_in_helper', 0))):
                # over a literal table of a few names (field keys) the comprehension is the display it spells out
                items_ = self.iter_items(gens[0][0], st, limit=8)
                if items_ and all(i_[0] == 'const' and isinstance(i_[1], str) for i_ in items_):
                    is_el = lambda x: x[0] == 'elem' and x[1] == gens[0][0]
                    return ('list', tuple(replace_term(elt, is_el, i_) for i_ in items_))
            return mk_comp(kind, elt, tuple(gens))
        if isinstance(n, ast.DictComp):
            sub = st.copy()
            gens = []
            for g in n.generators:
                it = self.ev(g.iter, sub)
                self.bind(g.target, ('elem', it, g.iter.lineno), sub, n)
                conds = tuple(self.ev(c, sub) for c in g.ifs)
                gens.append((it, conds))
            k, v = self.ev(n.key, sub), self.ev(n.value, sub)
            if len(gens) == 1 and not gens[0][1]:
                # over a few known items (a literal table of keys) the comprehension is the display it spells out
                items_ = self.iter_items(gens[0][0], st, limit=12)
                if items_ and all(i_[0] == 'const' for i_ in items_):
                    is_el = lambda x: x[0] == 'elem' and x[1] == gens[0][0]
                    return ('dict', tuple((replace_term(k, is_el, i_), replace_term(v, is_el, i_)) for i_ in items_))
            return ('dictcomp', k, v, tuple(gens))
        if isinstance(n, ast.Starred):
            return ('star', E(n.value))
        if isinstance(n, ast.NamedExpr):
            v = E(n.value)
            st.env[n.target.id] = v
            return v
        if isinstance(n, ast.Await):
            return E(n.value)
        if isinstance(n, ast.Yield):
            return ('yield', E(n.value) if n.value is not None else ('const', None))
        if isinstance(n, ast.YieldFrom):
            return ('yieldfrom', E(n.value))
        return ('expr', src(n))

    # -- interprocedural helpers ---------------------------------------------
    def canonical(self, name):
        """reference name of a module-level private function that was renamed (see core.renamed_privates)"""
        mt = self.modtree
        al = getattr(mt, '_aliases', None) if mt is not None else None
        return al.get(name, name) if al else name

    def _outer_binding(self, name, st):
        """a free variable of a nested function that the enclosing function binds exactly once to a helper value built
        without calls that act (`rule_of = attrgetter(..)`, a constant, a literal table): the value it is bound to"""
        cache = self.__dict__.setdefault('_outer_cache', {})
        key = (id(self._stack[-1]), name)
        if key in cache:
            return cache[key]
        cache[key] = None
        fn = self._stack[-1]
        if any(isinstance(x, ast.Name) and x.id == name and isinstance(x.ctx, (ast.Store, ast.Del)) for x in ast.walk(fn)) or \
                any(isinstance(x, (ast.Nonlocal, ast.Global)) and name in x.names for x in ast.walk(fn)) or \
                any(a.arg == name for x in ast.walk(fn) if isinstance(x, ast.arguments) for a in x.args + x.kwonlyargs):
            return None
        outer = getattr(fn, '_parent', None)
        while outer is not None and not isinstance(outer, (ast.FunctionDef, ast.AsyncFunctionDef)):
            if isinstance(outer, (ast.ClassDef, ast.Module)):
                return None
            outer = getattr(outer, '_parent', None)
        if outer is None:
            return None
        binds = []
        for x in ast.walk(outer):
            if isinstance(x, ast.Name) and x.id == name and isinstance(x.ctx, (ast.Store, ast.Del)):
                binds.append(x)
            if isinstance(x, ast.arg) and x.arg == name:
                return None
        if len(binds) != 1:
            return None
        asg = getattr(binds[0], '_parent', None)
        if not (isinstance(asg, ast.Assign) and len(asg.targets) == 1 and asg.targets[0] is binds[0]):
            return None
        v = asg.value
        ok = isinstance(v, ast.Constant) or (isinstance(v, ast.Call) and isinstance(v.func, (ast.Name, ast.Attribute))
                                             and src(v.func) in ('attrgetter', 'operator.attrgetter', 'itemgetter', 'operator.itemgetter'))
        if not ok:
            return None
        probe = State()
        probe.env = {}
        val = self.ev(v, probe)
        if probe.events and not all(e[0] == 'call' for e in probe.events):
            return None
        cache[key] = val
        return val

    def _declared_not_none(self, name):
        fn = self._stack[0] if getattr(self, '_stack', None) else None
        if fn is None or not isinstance(fn, (ast.FunctionDef, ast.AsyncFunctionDef)):
            return False
        for a_ in fn.args.posonlyargs + fn.args.args + fn.args.kwonlyargs:
            if a_.arg == name and a_.annotation is not None:
                an = a_.annotation
                if isinstance(an, (ast.Name, ast.Attribute)) and src(an) not in ('Optional', 'Any', 'object', 'None') and \
                        not any(isinstance(x, ast.Name) and x.id == name and isinstance(x.ctx, (ast.Store, ast.Del)) for x in ast.walk(fn)):
                    return True
        return False

    def module_const(self, name, modtree=None):
        """term of a module-level name bound exactly once to a literal made of constants (str/num/tuples/sets/dicts)"""
        modtree = modtree if modtree is not None else self.modtree
        if modtree is None:
            return None
        if id(modtree) not in self._consts_by_mod:
            consts = self._consts_by_mod[id(modtree)] = {}
            seen = {}
            for s_ in modtree.body:
                tg = []
                if isinstance(s_, ast.Assign):
                    tg, val = s_.targets, s_.value
                elif isinstance(s_, ast.AnnAssign) and s_.value is not None:
                    tg, val = [s_.target], s_.value
                for t in tg:
                    if isinstance(t, ast.Name):
                        seen[t.id] = seen.get(t.id, 0) + 1
                        lit = _literal_term(val, modtree)
                        # (a compiled pattern bound to a name of its own stays that name: the rules know the
                        # tokeniser / field regexes by their names; inside a table it is a value like any other)
                        if lit is not None and not (lit[0] == 'name') and not (lit[0] == 'call' and lit[1] == ('attr', ('name', 're'), 'compile')):
                            consts[t.id] = lit
            for k, cnt in seen.items():
                if cnt != 1:
                    consts.pop(k, None)
            # a mutable literal (list / dict / set) counts as a constant only if the module uses it read-only everywhere
            for k in [k for k, v in consts.items() if _mutable_literal(v)]:
                if not _read_only_uses(modtree, k):
                    del consts[k]
        got = self._consts_by_mod[id(modtree)].get(name)
        if got is None and name not in self._consts_by_mod[id(modtree)]:
            got = self._imported_const(modtree, name)
        return got

    def _imported_const(self, modtree, name):
        """a constant of another module of the repository bound here by `from pkg.mod import NAME`"""
        pym = getattr(modtree, '_pymodule', None)
        repo = getattr(pym, 'repo', None)
        if repo is None:
            return None
        for s_ in modtree.body:
            if isinstance(s_, ast.ImportFrom) and s_.module and s_.level == 0:
                for al in s_.names:
                    if (al.asname or al.name) == name:
                        for rel in (s_.module.replace('.', '/') + '.py', s_.module.replace('.', '/') + '/__init__.py'):
                            if repo.exists(rel):
                                try:
                                    other = repo.module(rel)
                                except Exception:
                                    return None
                                if any(isinstance(d, (ast.FunctionDef, ast.ClassDef)) and d.name == al.name for d in other.tree.body):
                                    return None
                                return self.module_const(al.name, other.tree)
                        return None
        return None

    def resolve(self, f, st):
        """FunctionDef a call target term denotes (same module / class / enclosing function), or None"""
        if self.modtree is None:
            return None
        fd = None
        if f[0] == 'func':
            fd = _FUNC_BY_ID.get(f[2])
            if fd is None:
                for root in (self.modtree, self._context(self._stack[0])[0]):
                    for n in ast.walk(root) if root is not None else ():
                        if isinstance(n, ast.FunctionDef) and id(n) == f[2]:
                            fd = _FUNC_BY_ID[f[2]] = n
                            break
                    if fd is not None:
                        break
        elif f[0] == 'name':
            # lexical lookup: enclosing function bodies (sibling closures), then the module
            scope = getattr(self._stack[-1], '_parent', None)
            while scope is not None and fd is None:
                if isinstance(scope, (ast.FunctionDef, ast.Module)):
                    for s_ in scope.body:
                        if isinstance(s_, ast.FunctionDef) and (s_.name == f[1] or (isinstance(scope, ast.Module) and self.canonical(s_.name) == f[1])):
                            fd = s_
                scope = getattr(scope, '_parent', None)
            if fd is None:
                fd = self.imported(f[1])
        elif f[0] == 'attr' and f[1][0] == 'name':
            owner = None
            if f[1][1] in ('self', 'cls') and self.cls is not None:
                owner = self.cls
            else:
                for s_ in self.modtree.body:
                    if isinstance(s_, ast.ClassDef) and s_.name == f[1][1]:
                        owner = s_
                if owner is None and st is not None:
                    # a value the path has established the class of: isinstance(x, K) held
                    for c_, pol_, _n in getattr(st, 'conds', ()):
                        if pol_ and c_[0] == 'call' and c_[1] == ('name', 'isinstance') and len(c_[2]) == 2 and c_[2][0] == f[1] and c_[2][1][0] == 'name':
                            for s_ in self.modtree.body:
                                if isinstance(s_, ast.ClassDef) and s_.name == c_[2][1][1]:
                                    owner = s_
            if owner is not None:
                # the class itself, then its base classes defined in the same module (inherited helpers)
                todo, seen_ = [owner], set()
                while todo and fd is None:
                    c_ = todo.pop(0)
                    if id(c_) in seen_:
                        continue
                    seen_.add(id(c_))
                    for s_ in c_.body:
                        if isinstance(s_, ast.FunctionDef) and s_.name == f[2]:
                            fd = s_
                    for b_ in c_.bases:
                        if isinstance(b_, ast.Name):
                            todo += [s_ for s_ in self.modtree.body if isinstance(s_, ast.ClassDef) and s_.name == b_.id]
        local_name = f[1] if f[0] == 'name' else (f[2] if f[0] == 'attr' else None)
        if fd is None or fd in self._stack or fd.name in self.no_inline or self.canonical(fd.name) in self.no_inline \
                or (isinstance(local_name, str) and local_name in self.no_inline):
            return None
        deco = [src(d) for d in fd.decorator_list]
        if any(d not in ('staticmethod', 'classmethod') for d in deco):
            return None
        if any(isinstance(n, (ast.Yield, ast.YieldFrom, ast.Await)) for n in ast.walk(fd)):
            return None
        return fd

    def _class_named(self, name):
        if self.modtree is None:
            return None
        for s_ in self.modtree.body:
            if isinstance(s_, ast.ClassDef) and s_.name == name:
                return s_
        return self.imported(name, kinds=(ast.ClassDef,))

    def record_fields(self, f):
        """field names, in declaration order, of the record class (annotated fields, no hand-written __init__) that a
        call target names; None for anything else"""
        if f[0] != 'name':
            return None
        cls = self._class_named(f[1])
        if cls is None:
            return None
        if any(isinstance(s_, ast.FunctionDef) and s_.name in ('__init__', '__new__') for s_ in cls.body):
            return None
        fields = [s_.target.id for s_ in cls.body if isinstance(s_, ast.AnnAssign) and isinstance(s_.target, ast.Name)]
        bases = [src(b) for b in cls.bases]
        is_record = any('NamedTuple' in b for b in bases) or any('dataclass' in src(d) for d in cls.decorator_list)
        return fields if fields and is_record else None

    def record_default(self, f, field):
        cls = self._class_named(f[1]) if f[0] == 'name' else None
        if cls is None:
            return None
        for fld, dflt in (_record_fields_of(cls) or []):
            if fld == field and dflt is not None:
                return _literal_term(dflt, self.modtree)
        return None

    def signature(self, f):
        """positional parameter names of the repository function / method a call target denotes (receiver removed), for
        turning keyword arguments into their positional spelling; None when the target is not a known definition"""
        fd = None
        drop = 0
        if f[0] == 'func':
            fd = _FUNC_BY_ID.get(f[2])
        elif f[0] == 'name':
            scope = getattr(self._stack[-1], '_parent', None)
            while scope is not None and fd is None:
                if isinstance(scope, (ast.FunctionDef, ast.Module)):
                    for s_ in scope.body:
                        if isinstance(s_, ast.FunctionDef) and s_.name == f[1]:
                            fd = s_
                scope = getattr(scope, '_parent', None)
            if fd is None:
                fd = self.imported(f[1])
            if fd is None:
                cls_ = self._class_named(f[1])
                if cls_ is not None:
                    for s_ in cls_.body:
                        if isinstance(s_, ast.FunctionDef) and s_.name == '__init__':
                            fd = s_
                            drop = 1
        elif f[0] == 'attr' and f[1][0] == 'name':
            owner = None
            if f[1][1] in ('self', 'cls') and self.cls is not None:
                owner = self.cls
            elif self.modtree is not None:
                for s_ in self.modtree.body:
                    if isinstance(s_, ast.ClassDef) and s_.name == f[1][1]:
                        owner = s_
                if owner is None:
                    owner = self.imported(f[1][1], kinds=(ast.ClassDef,))
            if owner is not None:
                for s_ in owner.body:
                    if isinstance(s_, ast.FunctionDef) and s_.name == f[2]:
                        fd = s_
                if fd is not None and 'staticmethod' not in [src(d) for d in fd.decorator_list]:
                    drop = 1
        if fd is None or fd.args.vararg is not None or fd.args.posonlyargs:
            return None
        return [a.arg for a in fd.args.args][drop:]

    def imported(self, name, kinds=(ast.FunctionDef,)):
        """a function of another module of the repository bound here by `from pkg.mod import name [as alias]`"""
        modtree = self.modtree
        pym = getattr(modtree, '_pymodule', None)
        repo = getattr(pym, 'repo', None)
        if repo is None:
            return None
        for s_ in modtree.body:
            if isinstance(s_, ast.ImportFrom) and s_.module and s_.level == 0:
                for al in s_.names:
                    if (al.asname or al.name) == name:
                        for rel in (s_.module.replace('.', '/') + '.py', s_.module.replace('.', '/') + '/__init__.py'):
                            if repo.exists(rel):
                                try:
                                    other = repo.module(rel)
                                except Exception:
                                    return None
                                for d in other.tree.body:
                                    if isinstance(d, kinds) and d.name == al.name:
                                        return d
                        return None
        return None

    def bind_params(self, fd, f, args, kws, st):
        """-> env dict for the callee or None if the call does not bind"""
        a = fd.args
        params = [x.arg for x in a.posonlyargs + a.args]
        deco = [src(d) for d in fd.decorator_list]
        pos = list(args)
        if isinstance(getattr(fd, '_parent', None), ast.ClassDef) and 'staticmethod' not in deco:
            # method: first parameter is the receiver (instance or class)
            if f[0] == 'attr':
                pos = [f[1]] + pos
        if any(x[0] == 'star' for x in pos) or any(k is None for k, _ in kws):
            return None
        env = {}
        if len(pos) > len(params):
            if a.vararg is None:
                return None
            env[a.vararg.arg] = ('tuple', tuple(pos[len(params):]))
            pos = pos[:len(params)]
        elif a.vararg is not None:
            env[a.vararg.arg] = ('tuple', ())
        for p_, v in zip(params, pos):
            env[p_] = v
        kwonly = [x.arg for x in a.kwonlyargs]
        for k, v in kws:
            if k in params or k in kwonly:
                if k in env:
                    return None
                env[k] = v
            elif a.kwarg is None:
                return None
        defaults = a.defaults
        for p_, d in zip(params[len(params) - len(defaults):], defaults):
            if p_ not in env:
                lit = _literal_term(d)
                env[p_] = lit if lit is not None else ('default', src(d))
        for p_, d in zip(kwonly, a.kw_defaults):
            if p_ not in env and d is not None:
                lit = _literal_term(d)
                env[p_] = lit if lit is not None else ('default', src(d))
        if any(p_ not in env for p_ in params + kwonly):
            return None
        return env

    def iter_items(self, t, st, limit=40):
        """the items an iteration over term `t` visits, when that is known: displays, constant strings, range(k), zip /
        reversed / enumerate of known sequences, a list created empty here whose appends were all seen.  Else None."""
        def go(t):
            if t[0] in ('tuple', 'list') and not any(x[0] == 'star' for x in t[1]):
                return list(t[1])
            if t[0] == 'const' and isinstance(t[1], str):
                return [('const', ch) for ch in t[1]]
            if t[0] == 'alloc' and t[1] == 'list':
                c = st.data.get('contents', {}).get(t)
                return list(c) if c is not None else None
            if t[0] == 'call' and t[1][0] == 'name' and not t[3]:
                fn, a = t[1][1], t[2]
                if fn == 'range' and 1 <= len(a) <= 2 and all(x[0] == 'const' and isinstance(x[1], int) for x in a):
                    lo, hi = (0, a[0][1]) if len(a) == 1 else (a[0][1], a[1][1])
                    return [('const', i) for i in range(lo, hi)] if hi - lo <= limit else None
                if fn == 'range' and len(a) == 1 and a[0][0] == 'call' and a[0][1] == ('name', 'len') and len(a[0][2]) == 1:
                    inner = go(a[0][2][0])
                    return [('const', i) for i in range(len(inner))] if inner is not None else None
                if fn in ('reversed',) and len(a) == 1:
                    inner = go(a[0])
                    return list(reversed(inner)) if inner is not None else None
                if fn in ('list', 'tuple', 'iter') and len(a) == 1:
                    return go(a[0])
                if fn == 'zip' and a:
                    cols = [go(x) for x in a]
                    if all(c is not None for c in cols):
                        return [('tuple', tuple(row)) for row in zip(*cols)]
                    return None
                if fn == 'enumerate' and 1 <= len(a) <= 2:
                    inner = go(a[0])
                    start = a[1][1] if len(a) == 2 and a[1][0] == 'const' else 0
                    return [('tuple', (('const', i + start), x)) for i, x in enumerate(inner)] if inner is not None else None
            return None
        items = go(t)
        if items is None or len(items) > limit:
            return None
        return items

    def inline_expr(self, fd, f, args, kws, st, allow_raise=False):
        """value of a call of helper `fd` as a term (branches become conditional terms); side effects are appended to the
        caller's event trace.  None when the body uses constructs that cannot be folded into an expression."""
        penv = self.bind_params(fd, f, args, kws, st)
        if penv is None:
            return None
        if not _expression_like(fd) and not _loops_only(fd) and not (allow_raise and _chooser_like(fd)):
            return None
        nested = _is_closure(fd)
        sub = State()
        sub.env = dict(st.env) if nested else {k: v for k, v in st.env.items() if not isinstance(k, str) or '.' in k}
        sub.env.update(penv)
        sub.conds, sub.events, sub.data = st.conds, st.events, st.data     # shared trace

        def body(stmts):
            stmts = list(stmts)
            while stmts:
                s_ = stmts.pop(0)
                if isinstance(s_, ast.Return):
                    return self.ev(s_.value, sub) if s_.value is not None else ('const', None)
                if isinstance(s_, ast.Raise) and allow_raise:
                    return ('sym', 'raises', src(s_.exc)[:60] if s_.exc is not None else '')
                if isinstance(s_, ast.If):
                    c = self.ev(s_.test, sub)
                    if c[0] == 'const':
                        # decided by the arguments of this call: only the branch taken is read
                        stmts = list(s_.body if c[1] else s_.orelse) + stmts
                        continue
                    self._guard.append((c, True))
                    saved = dict(sub.env)
                    a_ = body(list(s_.body) + stmts)
                    sub.env.clear()
                    sub.env.update(saved)
                    self._guard[-1] = (c, False)
                    b_ = body(list(s_.orelse) + stmts)
                    self._guard.pop()
                    if a_ is None or b_ is None:
                        return None
                    return ('ifexp', c, a_, b_)
                if isinstance(s_, ast.Assign):
                    if isinstance(s_.value, ast.List) and not s_.value.elts:
                        self._alloc_seq = getattr(self, '_alloc_seq', 0) + 1
                        v = ('alloc', 'list', (s_.lineno, 'inl', self._alloc_seq))
                        st.data.setdefault('contents', {})[v] = ()
                    else:
                        v = self.ev(s_.value, sub)
                    for t_ in s_.targets:
                        self.bind(t_, v, sub, s_)
                    continue
                if isinstance(s_, ast.AnnAssign):
                    if s_.value is not None:
                        self.bind(s_.target, self.ev(s_.value, sub), sub, s_)
                    continue
                if isinstance(s_, ast.Expr) and isinstance(s_.value, ast.Constant):
                    continue        # docstring
                if isinstance(s_, ast.Expr):
                    v = self.ev(s_.value, sub)
                    st.events.append(('expr', v, s_))
                    continue
                if isinstance(s_, (ast.Pass,)):
                    continue
                if isinstance(s_, ast.Assert):
                    continue
                if isinstance(s_, tuple) and s_ and s_[0] == '__bind__':
                    self.bind(s_[1], s_[2], sub, s_[3])
                    continue
                if isinstance(s_, ast.While) and not s_.orelse and not any(isinstance(x, (ast.Break, ast.Continue, ast.Return)) for x in ast.walk(s_)):
                    # a loop whose test is decided by what is known (the length of a display against a constant argument):
                    # run it as often as the test says, at most a few times
                    rounds = getattr(s_, '_pe_rounds', {})
                    k_ = rounds.get(id(sub), 0)
                    c_ = self.ev(s_.test, sub)
                    if c_[0] != 'const' or k_ > 8:
                        return UNSUPPORTED
                    if c_[1]:
                        rounds[id(sub)] = k_ + 1
                        s_._pe_rounds = rounds
                        stmts = list(s_.body) + [s_] + stmts
                    else:
                        rounds.pop(id(sub), None)
                    continue
                if isinstance(s_, ast.For) and not s_.orelse and not any(isinstance(x, (ast.Break, ast.Continue, ast.Return)) for x in ast.walk(s_)):
                    items = self.iter_items(self.ev(s_.iter, sub), sub)
                    if items is None:
                        return UNSUPPORTED
                    unrolled = []
                    for it_ in items:
                        unrolled.append(('__bind__', s_.target, it_, s_))
                        unrolled.extend(s_.body)
                    stmts = unrolled + stmts
                    continue
                return UNSUPPORTED
            return ('const', None)
        self._stack.append(fd)
        mark = len(st.events)
        saved_base = getattr(self, '_guard_base', 0)
        self._guard_base = len(self._guard)      # what is unconditional inside the helper is so relative to its call
        self._in_helper = getattr(self, '_in_helper', 0) + 1
        try:
            r = body(fd.body)
        finally:
            self._stack.pop()
            self._guard_base = saved_base
            self._in_helper -= 1
        if r is UNSUPPORTED or r is None or _contains(r, UNSUPPORTED):
            del st.events[mark:]
            return None
        # heap-like bindings (attributes / items) made by the helper stay visible to the caller
        for k, v in sub.env.items():
            if (isinstance(k, str) and '.' in k) or isinstance(k, tuple):
                st.env[k] = v
        return r

    def fork_call(self, call_node, st):
        """statement-level inlining with path forking: yields (state, outcome, value) for each path through the helper
        that `call_node` invokes, or None when the call is not an inlinable helper call."""
        if not self.inline or not isinstance(call_node, ast.Call):
            return None
        probe = st.copy()
        f = self.ev(call_node.func, probe)
        if getattr(self, 'fork_filter', None) is not None and not self.fork_filter(st, f):
            return None
        if f[0] == 'ifexp':
            # the callee is chosen by a conditional (dispatch table): one fork per choice, under its condition
            try:
                alts = alternatives(f)
            except ValueError:
                return None
            if len(alts) > 12:
                return None
            fds = [(g, ft, self.resolve(ft, probe) if ft[0] != 'sym' else None) for g, ft in alts]
            if not any(fd is not None and _forkable(fd) for _, _, fd in fds):
                return None
            return self._fork_dispatch(fds, call_node, st)
        fd = self.resolve(f, probe)
        if fd is None:
            return None
        if not _forkable(fd):
            return None
        return self._fork(fd, f, call_node, st)

    def _fork_dispatch(self, fds, call_node, st):
        for g, ft, fd in fds:
            st2 = st.copy()
            for c, p_ in g:
                for alt in expand_cond(c, p_)[:1]:
                    for a_, q_ in alt:
                        record_cond(st2, a_, q_, call_node)
            if contradictory(st2.conds):
                continue
            if ft[0] == 'sym' and ft[1] == 'key-error':
                st2.exc = ('call', ('name', 'KeyError'), (), ())
                st2.events.append(('raise', st2.exc, call_node))
                yield st2, 'raise', None
                continue
            if ft[0] == 'sym' and ft[1] == 'raises':
                st2.exc = ('sym', 'raised', ft[2])
                st2.events.append(('raise', st2.exc, call_node))
                yield st2, 'raise', None
                continue
            if fd is not None and _forkable(fd):
                for r in self._fork(fd, ft, call_node, st2):
                    yield r
                continue
            args = [self.ev(a, st2) for a in call_node.args if not isinstance(a, ast.Starred)]
            kws = tuple((kw.arg, self.ev(kw.value, st2)) for kw in call_node.keywords)
            t = ('call', ft, tuple(args), kws)
            st2.events.append(('call', t, call_node))
            yield st2, 'value', t

    def _fork(self, fd, f, call_node, st):
        args = []
        for a in call_node.args:
            if isinstance(a, ast.Starred):
                v = self.ev(a.value, st)
                if v[0] in ('tuple', 'list'):
                    args.extend(v[1])
                else:
                    args.append(('star', v))
            else:
                args.append(self.ev(a, st))
        kws = tuple((kw.arg, self.ev(kw.value, st)) for kw in call_node.keywords)
        penv = self.bind_params(fd, f, tuple(args), kws, st)
        if penv is None:
            yield None
            return
        t = ('call', f, tuple(args), kws)
        st.events.append(('call', t, call_node))
        nested = _is_closure(fd)
        caller_env = st.env
        cal = st.copy()
        cal.env = dict(caller_env) if nested else {k: v for k, v in caller_env.items() if not isinstance(k, str) or '.' in k}
        cal.env.update(penv)
        cal.ret = None
        self._stack.append(fd)
        try:
            results = list(self.block(list(fd.body), cal))
        finally:
            self._stack.pop()
        for st2, out in results:
            heap = {k: v for k, v in st2.env.items() if (isinstance(k, str) and '.' in k) or isinstance(k, tuple)}
            if nested:
                # a closure may rebind enclosing locals only via nonlocal: ignore plain local rebinding
                pass
            env = dict(caller_env)
            env.update(heap)
            val = st2.ret if out == 'return' else ('const', None)
            st2.env = env
            st2.ret = None
            if out == 'raise':
                yield st2, 'raise', None
            else:
                # drop the helper's own 'return' marker event so that callers looking for returns see only their own
                if st2.events and st2.events[-1][0] == 'return':
                    st2.events.pop()
                yield st2, 'value', val

    # -- assignment --------------------------------------------------------
    def bind(self, target, val, st, node):
        if isinstance(target, ast.Name):
            st.env[target.id] = val
        elif isinstance(target, (ast.Tuple, ast.List)):
            if val[0] in ('tuple', 'list') and len(val[1]) == len(target.elts) and \
                    not any(isinstance(e, ast.Starred) for e in target.elts):
                for e, v in zip(target.elts, val[1]):
                    self.bind(e, v, st, node)
            elif val[0] == 'call' and val[1] == ('name', 'map') and len(val[2]) == 2 and not val[3] \
                    and not any(isinstance(e, ast.Starred) for e in target.elts):
                # a, b = map(f, xs): each component is f applied to the corresponding component of xs
                for i, e in enumerate(target.elts):
                    self.bind(e, ('call', val[2][0], (('unpack', val[2][1], i),), ()), st, node)
            else:
                for i, e in enumerate(target.elts):
                    self.bind(e.value if isinstance(e, ast.Starred) else e, ('unpack', val, i), st, node)
        elif isinstance(target, ast.Attribute):
            if isinstance(target.value, ast.Name) and target.value.id not in st.env:
                obj = ('name', target.value.id)     # keep identity (not a field snapshot)
            else:
                obj = self.ev(target.value, st)
            k = dotted(target)
            if k is not None:
                st.env[k] = val
            st.events.append(('setattr', obj, target.attr, val, node))
        elif isinstance(target, ast.Subscript):
            obj = self.ev(target.value, st)
            idx = self.ev(target.slice, st)
            st.env[('@sub', obj, idx)] = val
            st.events.append(('setitem', obj, idx, val, node))
        elif isinstance(target, ast.Starred):
            self.bind(target.value, ('star', val), st, node)

    # -- statements --------------------------------------------------------
    def tick(self):
        self.count += 1
        if self.count > MAX_STATES:
            raise AnalysisError('path explosion in %s' % getattr(self.fn, 'name', '?'))

    def block(self, stmts, st):
        if not stmts:
            yield st, 'fall'
            return
        s, rest = stmts[0], stmts[1:]
        if self.fold_loops and isinstance(s, ast.For) and rest and isinstance(rest[0], ast.Return):
            r = self._fold_search_loop(s, rest[0], st)
            if r is not None:
                yield r
                return
        for st2, out in self.stmt(s, st):
            if out == 'fall':
                for r in self.block(rest, st2):
                    yield r
            else:
                yield st2, out

    def stmt(self, s, st):
        self.tick()
        if self.on_stmt is not None:
            self.on_stmt(st, s)
        forked = self._stmt_fork(s, st)
        if forked is not None:
            for r in forked:
                yield r
            return
        hoisted = self._hoist_fork(s, st)
        if hoisted is not None:
            for r in hoisted:
                yield r
            return
        if isinstance(s, ast.Expr):
            v = self.ev(s.value, st)
            st.events.append(('expr', v, s))
            yield st, 'fall'
        elif isinstance(s, ast.Assign):
            if isinstance(s.value, (ast.List, ast.Dict, ast.Set)) and not getattr(s.value, 'elts', None) \
                    and not getattr(s.value, 'keys', None):
                v = ('alloc', type(s.value).__name__.lower(), s.lineno)   # a fresh empty container
                if getattr(s, '_alloc_tag', None):
                    v = v + (s._alloc_tag,)      # statements the object pass placed on one line stay distinct
                if v[1] == 'list':
                    st.data.setdefault('contents', {})[v] = ()
            else:
                v = self.ev(s.value, st)
            for t in s.targets:
                self.bind(t, v, st, s)
            yield st, 'fall'
        elif isinstance(s, ast.AnnAssign):
            if s.value is not None:
                self.bind(s.target, self.ev(s.value, st), st, s)
            yield st, 'fall'
        elif isinstance(s, ast.AugAssign):
            val = self.ev(s.value, st)
            if isinstance(s.target, ast.Name):
                old = self.ev(s.target, st)
                new = concat_str(old, val) if isinstance(s.op, ast.Add) else None
                st.env[s.target.id] = new if new is not None else ('binop', _BINOPS.get(type(s.op), '?'), old, val)
                st.events.append(('aug', ('name', s.target.id), _BINOPS.get(type(s.op), '?'), val, s))
            else:
                tgt = self.ev(s.target, st)
                st.events.append(('aug', tgt, _BINOPS.get(type(s.op), '?'), val, s))
            yield st, 'fall'
        elif isinstance(s, ast.Return):
            st.ret = self.ev(s.value, st) if s.value is not None else ('const', None)
            st.events.append(('return', st.ret, s))
            yield st, 'return'
        elif isinstance(s, ast.Raise):
            st.exc = self.ev(s.exc, st) if s.exc is not None else ('reraise',)
            st.events.append(('raise', st.exc, s))
            yield st, 'raise'
        elif isinstance(s, ast.Assert):
            c = self.ev(s.test, st)
            st.conds.append((c, True, s))
            st.events.append(('assert', c, s))
            yield st, 'fall'
        elif isinstance(s, ast.If):
            c = self.ev(s.test, st)
            for pol, body in ((True, s.body), (False, s.orelse)):
                for alt in expand_cond(c, pol):
                    st2 = st.copy()
                    for a_, p_ in alt:
                        record_cond(st2, a_, p_, s)
                    if contradictory(st2.conds):
                        continue        # the same elementary test with both outcomes: not a path
                    for r in self.block(body, st2):
                        yield r
        elif isinstance(s, ast.For) and self.fold_loops and self._fold_loop(s, st):
            yield st, 'fall'
        elif isinstance(s, ast.For) and self.fold_loops and self._known_items(s, st) is not None \
                and not (len(self._known_items(s, st)) > 6 and _branches_without_exit(s)):
            # a loop over a literal table is the sequence of its iterations
            items = self._known_items(s, st)
            self.ev(s.iter, st)
            st.events.append(('loop-literal', ('tuple', tuple(items)), s))
            for r in self._unroll_literal(s, items, st, 0):
                yield r
        elif isinstance(s, (ast.For, ast.AsyncFor)):
            it = self.ev(s.iter, st)
            st0 = st.copy()
            st0.events.append(('loop-skip', it, s))
            for r in self.block(s.orelse, st0):
                yield r
            for r in self._iterate(s, it, st.copy(), self.unroll):
                yield r
        elif isinstance(s, ast.While):
            c = self.ev(s.test, st)
            st0 = st.copy()
            st0.conds.append((c, False, s))
            st0.events.append(('loop-skip', c, s))
            for r in self.block(s.orelse, st0):
                yield r
            st1 = st.copy()
            st1.conds.append((c, True, s))
            st1.events.append(('loop-enter', c, s))
            for st2, out in self.block(s.body, st1):
                if out in ('fall', 'continue', 'break'):
                    st2.events.append(('loop-exit', c, s))
                    yield st2, 'fall'
                else:
                    yield st2, out
        elif isinstance(s, ast.Try):
            def fin(st_, out_):
                if not s.finalbody:
                    yield st_, out_
                    return
                for st3, o3 in self.block(s.finalbody, st_):
                    yield st3, (out_ if o3 == 'fall' else o3)
            for st2, out in self.block(s.body, st.copy()):
                if out == 'fall':
                    for st3, o3 in self.block(s.orelse, st2):
                        for r in fin(st3, o3):
                            yield r
                elif out == 'raise' and s.handlers:
                    for h in s.handlers:
                        st_h = st2.copy()
                        st_h.events.append(('except', src(h.type) if h.type is not None else None, h))
                        if h.name:
                            st_h.env[h.name] = ('sym', 'exception', h.lineno)
                        for st3, o3 in self.block(h.body, st_h):
                            for r in fin(st3, o3):
                                yield r
                else:
                    for r in fin(st2, out):
                        yield r
            if self.implicit_except:
                for h in s.handlers:
                    st_h = st.copy()
                    st_h.events.append(('except-implicit', src(h.type) if h.type is not None else None, h))
                    if h.name:
                        st_h.env[h.name] = ('sym', 'exception', h.lineno)
                    for st3, o3 in self.block(h.body, st_h):
                        for r in fin(st3, o3):
                            yield r
        elif isinstance(s, (ast.With, ast.AsyncWith)):
            for item in s.items:
                v = self.ev(item.context_expr, st)
                if item.optional_vars is not None:
                    self.bind(item.optional_vars, ('sym', 'ctx', show(v)), st, s)
            for r in self.block(s.body, st):
                yield r
        elif isinstance(s, (ast.FunctionDef, ast.AsyncFunctionDef)):
            _FUNC_BY_ID[id(s)] = s
            st.env[s.name] = ('func', s.name, id(s))
            yield st, 'fall'
        elif isinstance(s, ast.ClassDef):
            st.env[s.name] = ('class', s.name)
            yield st, 'fall'
        elif isinstance(s, ast.Break):
            yield st, 'break'
        elif isinstance(s, ast.Continue):
            yield st, 'continue'
        elif isinstance(s, ast.Delete):
            for t in s.targets:
                st.events.append(('del', self.ev(t, st), s))
            yield st, 'fall'
        elif isinstance(s, (ast.Pass, ast.Global, ast.Nonlocal, ast.Import, ast.ImportFrom)):
            yield st, 'fall'
        else:
            raise AnalysisError('unsupported statement %s at line %s' % (type(s).__name__, s.lineno))

    def _stmt_fork(self, s, st):
        """if statement `s` is driven by a direct call of an inlinable helper, run the helper with path forking"""
        if not self.inline:
            return None
        call = None
        neg = False
        kind = None
        if isinstance(s, ast.Expr) and isinstance(s.value, ast.Call):
            call, kind = s.value, 'expr'
        elif isinstance(s, ast.Return) and isinstance(s.value, ast.Call):
            call, kind = s.value, 'return'
        elif isinstance(s, ast.Assign) and isinstance(s.value, ast.Call) and len(s.targets) == 1:
            call, kind = s.value, 'assign'
        elif isinstance(s, ast.If):
            t = s.test
            if isinstance(t, ast.UnaryOp) and isinstance(t.op, ast.Not):
                t, neg = t.operand, True
            if isinstance(t, ast.Call):
                call, kind = t, 'if'
            elif isinstance(t, ast.BoolOp) and any(isinstance(v, ast.Call) for v in t.values):
                # `if a(..) or b(..):` with helpers that act as well as answer: walk it as the nested ifs it abbreviates
                nested = self._split_boolop_if(s, t, neg, st)
                if nested is not None:
                    return self.stmt(nested, st)
        if call is None:
            return None
        if kind != 'if':
            # a helper that is one (conditional) expression is inlined as a value -- `x = h(a)` then reads like
            # `x = <body of h>` -- and only helpers with statements of their own (loops, raises) fork the path
            probe = st.copy()
            fd_ = self.resolve(self.ev(call.func, probe), probe)
            if fd_ is not None and _expression_like(fd_):
                return None
        gen = self.fork_call(call, st.copy())
        if gen is None:
            return None
        results = list(gen)
        if results and results[0] is None:
            return None
        return self._after_fork(s, kind, neg, results)

    def _split_boolop_if(self, s, t, neg, st):
        """-> synthetic nested If for `if [not] (v1 op v2 ..): body else: orelse`, when one of the operands is a call of a
        helper that has statements of its own (so that its paths must fork); else None"""
        cached = getattr(s, '_split_if', None)
        if cached is not None:
            return cached or None
        acts = False
        for v in t.values:
            if isinstance(v, ast.Call):
                probe = st.copy()
                try:
                    fd_ = self.resolve(self.ev(v.func, probe), probe)
                except AnalysisError:
                    fd_ = None
                if fd_ is not None and not _expression_like(fd_) and _forkable(fd_):
                    acts = True
        if not acts:
            s._split_if = False
            return None
        then, other = (s.orelse, s.body) if neg else (s.body, s.orelse)
        then = then or [ast.copy_location(ast.Pass(), s)]
        other = other or [ast.copy_location(ast.Pass(), s)]

        def build(values):
            v0 = values[0]
            if len(values) == 1:
                node = ast.If(test=v0, body=then, orelse=other)
            elif isinstance(t.op, ast.Or):
                node = ast.If(test=v0, body=then, orelse=[build(values[1:])])
            else:
                node = ast.If(test=v0, body=[build(values[1:])], orelse=other)
            ast.copy_location(node, s)
            node._parent = getattr(s, '_parent', None)
            node._split_if = False
            return node
        s._split_if = build(list(t.values))
        return s._split_if

    def _hoist_fork(self, s, st):
        """`f(h(a))` as a statement, where helper h has statements of its own (a guard that raises, a loop): run as
        `tmp = h(a); f(tmp)` so that h's paths fork.  Only when everything evaluated before h(a) is free of effects."""
        if self.inline and isinstance(s, ast.Return) and isinstance(s.value, ast.Tuple) and getattr(s, '_hoist', None) is None:
            # `return h(a), rest`: as `tmp = h(a); return tmp, rest`
            simple = lambda e: all(isinstance(n, (ast.Name, ast.Attribute, ast.Constant, ast.Load)) for n in ast.walk(e))
            elts = s.value.elts
            if elts and isinstance(elts[0], ast.Call) and simple(elts[0].func) and all(simple(a) for a in elts[0].args) and not elts[0].keywords \
                    and all(simple(e) for e in elts[1:]):
                import copy as _copy
                tmp = '__hoisted_%d_%d' % (s.lineno, s.col_offset)
                pre = ast.copy_location(ast.Assign(targets=[ast.copy_location(ast.Name(id=tmp, ctx=ast.Store()), s)], value=elts[0]), s)
                post = _copy.copy(s)
                tup = _copy.copy(s.value)
                tup.elts = [ast.copy_location(ast.Name(id=tmp, ctx=ast.Load()), elts[0])] + list(elts[1:])
                post.value = tup
                post._hoist = False
                pre._hoist = False
                pre._parent = post._parent = getattr(s, '_parent', None)
                s._hoist = (pre, post)
            else:
                s._hoist = False
        if not self.inline or not isinstance(s, (ast.Expr, ast.Assign, ast.Return)) or not (isinstance(s.value, ast.Call) or isinstance(getattr(s, '_hoist', None), tuple)):
            return None
        cached = getattr(s, '_hoist', None)
        if cached is None:
            outer = s.value
            simple = lambda e: all(isinstance(n, (ast.Name, ast.Attribute, ast.Constant, ast.Load)) for n in ast.walk(e))
            found = None
            if simple(outer.func):
                for i, a in enumerate(outer.args):
                    if isinstance(a, ast.Call) and isinstance(a.func, ast.Name):
                        found = i
                        break
                    if not simple(a):
                        break
            if found is None:
                s._hoist = False
                return None
            import copy as _copy
            tmp = '__hoisted_%d_%d' % (s.lineno, s.col_offset)
            pre = ast.copy_location(ast.Assign(targets=[ast.copy_location(ast.Name(id=tmp, ctx=ast.Store()), s)], value=outer.args[found]), s)
            post = _copy.copy(s)
            call2 = _copy.copy(outer)
            call2.args = list(outer.args)
            call2.args[found] = ast.copy_location(ast.Name(id=tmp, ctx=ast.Load()), outer.args[found])
            post.value = call2
            post._hoist = False
            pre._hoist = False
            pre._parent = post._parent = getattr(s, '_parent', None)
            cached = s._hoist = (pre, post)
        if cached is False:
            return None
        pre, post = cached
        probe = st.copy()
        f_ = self.ev(pre.value.func, probe)
        if f_[0] != 'ifexp':            # (a callee chosen by a conditional is forked per choice by the statement fork)
            fd_ = self.resolve(f_, probe)
            if fd_ is None or _expression_like(fd_) or not _forkable(fd_):
                return None
        first = self._stmt_fork(pre, st)
        if first is None:
            return None

        def gen():
            for st2, out in first:
                if out != 'fall':
                    yield st2, out
                    continue
                for r in self.stmt(post, st2):
                    yield r
        return gen()

    def _after_fork(self, s, kind, neg, results):
        for st2, out, val in results:
            if out == 'raise':
                yield st2, 'raise'
                continue
            if kind == 'expr':
                st2.events.append(('expr', val, s))
                yield st2, 'fall'
            elif kind == 'return':
                st2.ret = val
                st2.events.append(('return', val, s))
                yield st2, 'return'
            elif kind == 'assign':
                self.bind(s.targets[0], val, st2, s)
                yield st2, 'fall'
            else:
                c = ('unop', 'not', val) if neg else val
                known = None
                if val[0] == 'const':
                    known = bool(val[1]) != neg
                for pol, body in ((True, s.body), (False, s.orelse)):
                    if known is not None and pol != known:
                        continue
                    for alt in expand_cond(c, pol):
                        st3 = st2.copy()
                        for a_, p_ in alt:
                            record_cond(st3, a_, p_, s)
                        if contradictory(st3.conds):
                            continue
                        for r in self.block(body, st3):
                            yield r

    def _known_items(self, s, st):
        """items of a loop that runs over a literal table (or a sequence built from literal pieces), else None"""
        probe = st.copy()
        t = self.ev(s.iter, probe)
        lit = _literal_seq(t)
        if lit is not None:
            return lit
        # a display of a few displays written in the loop header -- for a, b in ((x, y), (y, x)): -- whose members are
        # plain values (no calls): the rounds it spells out
        if isinstance(s.iter, (ast.Tuple, ast.List)) and 0 < len(s.iter.elts) <= 4 and all(isinstance(e, (ast.Tuple, ast.List)) for e in s.iter.elts) \
                and not any(isinstance(n, (ast.Call, ast.Starred, ast.Yield, ast.Await, ast.NamedExpr)) for n in ast.walk(s.iter)) and t[0] in ('tuple', 'list'):
            return list(t[1])
        if t[0] == 'call' and t[1][0] == 'name' and t[1][1] in ('zip', 'reversed', 'enumerate', 'range') or (t[0] == 'const' and isinstance(t[1], str)):
            return self.iter_items(t, probe)
        return None

    def _unroll_literal(self, s, items, st, i):
        if i == len(items):
            for r in self.block(s.orelse, st):
                yield r
            return
        self.bind(s.target, items[i], st, s)
        for st2, out in self.block(s.body, st):
            if out in ('fall', 'continue'):
                for r in self._unroll_literal(s, items, st2, i + 1):
                    yield r
            elif out == 'break':
                yield st2, 'fall'
            else:
                yield st2, out

    def _fold_search_loop(self, s, ret, st):
        """for x in it: [locals]; if c: return K      followed by      return not-K        (K a boolean constant)
        is  all(not c for x in it)  /  any(c for x in it):  bind the result to that term instead of walking iterations"""
        if s.orelse or not isinstance(ret.value, ast.Constant) or not isinstance(ret.value.value, bool):
            return None
        body = list(s.body)
        pre = []
        while body and isinstance(body[0], (ast.Assign, ast.AnnAssign)):
            x = body.pop(0)
            tg = x.targets if isinstance(x, ast.Assign) else [x.target]
            if not all(isinstance(t, ast.Name) or (isinstance(t, ast.Tuple) and all(isinstance(e, ast.Name) for e in t.elts)) for t in tg):
                return None
            pre.append(x)
        if len(body) != 1 or not isinstance(body[0], ast.If) or body[0].orelse:
            return None
        iff = body[0]
        if len(iff.body) != 1 or not isinstance(iff.body[0], ast.Return) or not isinstance(iff.body[0].value, ast.Constant) \
                or not isinstance(iff.body[0].value.value, bool) or iff.body[0].value.value == ret.value.value:
            return None
        inner_k = iff.body[0].value.value
        sub = st.copy()
        mark = len(st.events)
        it = self.ev(s.iter, sub)
        self.bind(s.target, ('elem', it, s.iter.lineno), sub, s)
        for x in pre:
            if isinstance(x, ast.Assign):
                v = self.ev(x.value, sub)
                for t in x.targets:
                    self.bind(t, v, sub, x)
            elif x.value is not None:
                self.bind(x.target, self.ev(x.value, sub), sub, x)
        c = self.ev(iff.test, sub)
        for e in sub.events[mark:]:
            st.events.append(('in-comp',) + tuple(e))
        st.data = sub.data
        if inner_k:
            val = ('call', ('name', 'any'), (mk_comp('genexp', c, ((it, ()),)),), ())
        else:
            val = ('call', ('name', 'all'), (mk_comp('genexp', ('unop', 'not', c), ((it, ()),)),), ())
        st.ret = val
        st.events.append(('loop-folded', it, val, s))
        st.events.append(('return', val, ret))
        return st, 'return'

    def _fold_loop(self, s, st):
        """a `for` loop whose only effect is appending to one list that is still empty is the comprehension it spells
        out: bind the list to that comprehension term instead of enumerating 0/1 iterations.  Returns False when the
        loop is anything else."""
        if s.orelse:
            return False
        accs = set()

        def shape(stmts):
            for x in stmts:
                if isinstance(x, ast.Assign) and all(isinstance(t, ast.Name) or (isinstance(t, ast.Tuple) and all(isinstance(e, ast.Name) for e in t.elts))
                                                     for t in x.targets):
                    continue
                if isinstance(x, ast.AnnAssign) and isinstance(x.target, ast.Name):
                    continue
                if isinstance(x, ast.If):
                    if not shape(x.body) or not shape(x.orelse):
                        return False
                    continue
                if isinstance(x, (ast.Pass, ast.Continue)):
                    continue
                if isinstance(x, ast.Expr) and isinstance(x.value, ast.Constant):
                    continue
                if isinstance(x, ast.Expr) and isinstance(x.value, ast.Call) and isinstance(x.value.func, ast.Attribute) \
                        and x.value.func.attr == 'append' and isinstance(x.value.func.value, ast.Name) \
                        and len(x.value.args) == 1 and not x.value.keywords and not isinstance(x.value.args[0], ast.Starred):
                    accs.add(x.value.func.value.id)
                    continue
                return False
            return True

        def dict_shape(stmts, top=True):
            # the same, for  acc[key] = value  into a dictionary that is still empty
            for x in stmts:
                if isinstance(x, ast.Assign) and len(x.targets) == 1 and isinstance(x.targets[0], ast.Subscript) \
                        and isinstance(x.targets[0].value, ast.Name):
                    accs.add(x.targets[0].value.id)
                    continue
                if isinstance(x, ast.Assign) and all(isinstance(t, ast.Name) or (isinstance(t, ast.Tuple) and all(isinstance(e, ast.Name) for e in t.elts))
                                                     for t in x.targets):
                    continue
                if isinstance(x, ast.AnnAssign) and isinstance(x.target, ast.Name):
                    continue
                if isinstance(x, ast.If):
                    if not dict_shape(x.body, False) or not dict_shape(x.orelse, False):
                        return False
                    continue
                if isinstance(x, (ast.Pass, ast.Continue)) or (isinstance(x, ast.Expr) and isinstance(x.value, ast.Constant)):
                    continue
                return False
            return True
        # a body that calls a helper with statements of its own (guards that raise, a search, early returns) is not a
        # comprehension: the helper's paths have to be walked
        if self.modtree is not None:
            for c_ in ast.walk(s):
                if isinstance(c_, ast.Call) and isinstance(c_.func, ast.Name):
                    for d_ in self.modtree.body:
                        if isinstance(d_, ast.FunctionDef) and d_.name == c_.func.id and not _expression_like(d_) and _forkable(d_) \
                                and d_.name not in self.no_inline and self.canonical(d_.name) not in self.no_inline:
                            return False
        is_dict = False
        if not shape(s.body) or len(accs) != 1:
            accs.clear()
            if not dict_shape(s.body) or len(accs) != 1:
                return False
            is_dict = True
        acc = next(iter(accs))
        cur = st.env.get(acc)
        if not (cur is not None and cur[0] == 'alloc' and cur[1] == ('dict' if is_dict else 'list')):
            return False
        for e in st.events:       # the list must still be empty and unshared
            for x in e[1:-1]:
                if isinstance(x, tuple) and any(y == cur for y in subterms(x)):
                    return False
        if any(v == cur for k, v in st.env.items() if k != acc):
            return False
        assigned = {n.id for x in ast.walk(s) for n in ast.walk(x) if isinstance(n, ast.Name) and isinstance(n.ctx, ast.Store)}
        if acc in assigned:
            return False
        if is_dict and any(isinstance(n, ast.Name) and n.id == acc and isinstance(n.ctx, ast.Load) and
                           not (isinstance(getattr(n, '_parent', None), ast.Subscript) and isinstance(n._parent.ctx, ast.Store))
                           for n in ast.walk(s)):
            return False        # the loop also reads the dictionary it fills
        sub = st.copy()
        it = self.ev(s.iter, sub)
        self.bind(s.target, ('elem', it, s.iter.lineno), sub, s)

        def walk(stmts, env):
            stmts = list(stmts)
            sub.env = env
            while stmts:
                x = stmts.pop(0)
                if is_dict and isinstance(x, ast.Assign) and isinstance(x.targets[0], ast.Subscript):
                    v = ('pair', self.ev(x.targets[0].slice, sub), self.ev(x.value, sub))
                    rest = walk(stmts, sub.env)
                    if rest is not SKIP:
                        return None         # more than one store per iteration
                    return ('leaf', v)
                if isinstance(x, ast.Assign):
                    v = self.ev(x.value, sub)
                    for t in x.targets:
                        self.bind(t, v, sub, x)
                elif isinstance(x, ast.AnnAssign):
                    if x.value is not None:
                        self.bind(x.target, self.ev(x.value, sub), sub, x)
                elif isinstance(x, ast.If):
                    c = self.ev(x.test, sub)
                    env0 = dict(sub.env)
                    self._guard.append((c, True))
                    a = walk(list(x.body) + stmts, dict(env0))
                    self._guard[-1] = (c, False)
                    b = walk(list(x.orelse) + stmts, dict(env0))
                    self._guard.pop()
                    if a is None or b is None:
                        return None
                    if a == b:
                        return a
                    return ('if', c, a, b)
                elif isinstance(x, ast.Continue):
                    return SKIP
                elif isinstance(x, ast.Expr) and isinstance(x.value, ast.Call):
                    v = self.ev(x.value.args[0], sub)
                    rest = walk(stmts, sub.env)
                    if rest is not SKIP:
                        return None         # more than one append per iteration
                    return ('leaf', v)
            return SKIP

        def flat(tree):
            """-> (filter conditions, element term) or None"""
            if tree is SKIP:
                return None
            if tree[0] == 'leaf':
                return (), tree[1]
            _, c, a, b = tree
            if a is SKIP:
                r = flat(b)
                return None if r is None else ((('unop', 'not', c),) + r[0], r[1])
            if b is SKIP:
                r = flat(a)
                return None if r is None else ((c,) + r[0], r[1])
            ra, rb = flat(a), flat(b)
            if ra is None or rb is None or ra[0] or rb[0]:
                return None
            return (), ('ifexp', c, ra[1], rb[1])
        mark = len(st.events)
        tree = walk(s.body, dict(sub.env))
        r = flat(tree) if tree is not None else None
        if r is None:
            return False
        for e in sub.events[mark:]:
            st.events.append(('in-comp',) + tuple(e))
        st.data = sub.data
        if is_dict:
            if r[1][0] != 'pair':
                return False
            st.env[acc] = ('dictcomp', r[1][1], r[1][2], ((it, tuple(r[0])),))
        else:
            st.env[acc] = mk_comp('listcomp', r[1], ((it, tuple(r[0])),))
        st.events.append(('loop-folded', it, st.env[acc], s))
        return True

    def _iterate(self, s, it, st, remaining):
        elem = ('elem', it, s.lineno)
        self.bind(s.target, elem, st, s)
        st.events.append(('loop-enter', it, s))
        for st2, out in self.block(s.body, st):
            if out in ('fall', 'continue'):
                if remaining > 1:
                    for r in self._iterate(s, it, st2.copy(), remaining - 1):
                        yield r
                st3 = st2.copy() if remaining > 1 else st2
                st3.events.append(('loop-exit', it, s))
                for r in self.block(s.orelse, st3):
                    yield r
            elif out == 'break':
                st2.events.append(('loop-exit', it, s))
                yield st2, 'fall'
            else:
                yield st2, out

    def run(self, body=None):
        st = State()
        st.env.update(self.init_env)
        if body is None:
            body = self.fn.body
        out = []
        for st2, o in self.block(list(body), st):
            out.append((st2, o))
        return out


def alternatives(t, limit=64):
    """split a term on the conditional expressions inside it: -> [(guards, term without ifexp)] where guards is a tuple
    of (condition, polarity).  `x if c else y` written in an expression and the same choice written as an if
    statement then produce the same (condition, value) pairs."""
    def go(t):
        if not isinstance(t, tuple):
            return [((), t)]
        if t and t[0] == 'ifexp':
            out = []
            for gc, c in go(t[1]):
                for ga, a in go(t[2]):
                    out.append((gc + ((c, True),) + ga, a))
                for gb, b in go(t[3]):
                    out.append((gc + ((c, False),) + gb, b))
            return out
        combos = [((), ())]
        for x in t:
            nxt = []
            for g0, acc in combos:
                for g1, v in go(x):
                    nxt.append((g0 + g1, acc + (v,)))
            combos = nxt
            if len(combos) > limit:
                raise ValueError('too many conditional alternatives')
        return combos
    res = []
    for g, v in go(t):
        # drop contradictory guard sets (same condition with both polarities)
        pos = {c for c, p in g if p}
        neg_ = {c for c, p in g if not p}
        if pos & neg_:
            continue
        res.append((tuple(dict.fromkeys(g)), v))
    return res


def path_values(paths):
    """[(conds, value)] over the returning paths, with conditional expressions in the value split into alternatives"""
    out = []
    for st, o in paths:
        if o != 'return' or st.ret is None:
            continue
        base = [(c, p) for c, p, _ in st.conds]
        for g, v in alternatives(st.ret):
            out.append((base + list(g), v))
    return out


def self_call_pred(fn):
    """predicate on call-target terms: does the term denote `fn` itself (closure name, self.method, Class.method)?"""
    cls = getattr(fn, '_parent', None)
    cname = cls.name if isinstance(cls, ast.ClassDef) else None

    def pred(f):
        if f[0] == 'func':
            return f[2] == id(fn)
        if f == ('name', fn.name):
            return cname is None
        if f[0] == 'attr' and f[2] == fn.name and cname is not None:
            return f[1] in (('name', 'self'), ('name', 'cls'), ('name', cname))
        return False
    return pred


def mark_self_calls(t, fn):
    """replace the target of every recursive call of fn inside term t by ('selfcall',)"""
    pred = self_call_pred(fn)
    if isinstance(t, tuple):
        if t and t[0] == 'call' and pred(t[1]):
            return ('call', ('selfcall',)) + tuple(mark_self_calls(x, fn) for x in t[2:])
        return tuple(mark_self_calls(x, fn) for x in t)
    return t


def own_params(fn):
    """positional parameters without the receiver of a method"""
    ps = [a.arg for a in fn.args.posonlyargs + fn.args.args]
    if isinstance(getattr(fn, '_parent', None), ast.ClassDef) and 'staticmethod' not in [src(d) for d in fn.decorator_list] and ps:
        ps = ps[1:]
    return ps


def guards_of(st, ev):
    """(condition, polarity) pairs of the conditional expressions / short-circuit operators / inlined helper branches
    under which the event `ev` (a 'getattr' or 'call' event of st.events) was evaluated"""
    if ev and ev[0] == 'in-comp':
        for k, (e0, g) in st.data.get('eguards', {}).items():
            if tuple(e0) == tuple(ev[1:]):
                return g
        return ()
    r = st.data.get('eguards', {}).get(id(ev))
    if r is not None and r[0] is ev:
        return r[1]
    return ()


def contradictory(conds):
    """does the list of recorded tests contain one elementary test with both outcomes?  (`x == y` / `x != y`,
    `x is None` / `x is not None`, `not x` ... are the same test; tests on terms that a write in between may have
    changed are never merged because the walker gives re-evaluated terms their new value)"""
    from . import logic
    seen = {}
    for c in conds:
        f = logic.formula(c[0])
        pol = c[1]
        if f[0] == 'not':
            f, pol = f[1], not pol
        if f[0] != 'atom':
            continue
        if seen.setdefault(f[1], pol) != pol:
            return True
    return False


def expand_cond(c, pol, limit=32):
    """the ways a test can come out `pol`, following short-circuit evaluation: a list of alternatives, each a list of
    (elementary test, polarity).  `if a or b:` then walks exactly like `if a: ... elif b: ...`."""
    if c[0] == 'unop' and c[1] == 'not':
        return expand_cond(c[2], not pol, limit)
    if c[0] == 'const':
        return [[]] if bool(c[1]) == pol else []       # a constant test has only one outcome
    if c[0] == 'bool':
        conj = (c[1] == 'and') == pol          # all members must come out `pol`
        if conj:
            alts = [[]]
            for x in c[2]:
                alts = [a + b for a in alts for b in expand_cond(x, pol, limit)]
                if len(alts) > limit:
                    return [[(c, pol)]]
            return alts
        alts = []
        prefix = [[]]
        for x in c[2]:
            for pre in prefix:
                for b in expand_cond(x, pol, limit):
                    alts.append(pre + b)
            prefix = [a + b for a in prefix for b in expand_cond(x, not pol, limit)]
            if len(alts) + len(prefix) > limit:
                return [[(c, pol)]]
        return alts
    return [[(c, pol)]]


def record_cond(st, c, pol, node):
    """record a passed test in elementary form: `not c` flips the polarity, a true conjunction / false disjunction is
    recorded member by member; how a test is spelt (guard clause, De Morgan, nesting) then leaves no trace"""
    if c[0] == 'unop' and c[1] == 'not':
        return record_cond(st, c[2], not pol, node)
    if c[0] == 'bool' and ((c[1] == 'and' and pol) or (c[1] == 'or' and not pol)):
        for x in c[2]:
            record_cond(st, x, pol, node)
        return
    st.conds.append((c, pol, node))
    st.events.append(('branch', c, pol, node))


def argof(call, name, index):
    """argument of a call term by keyword name or, failing that, by position"""
    for k, v in call[3]:
        if k == name:
            return v
    return call[2][index] if 0 <= index < len(call[2]) else None


def terms_of(st):
    """every term a path evaluated: operands of all events (also those inside comprehensions / folded loops) and the
    returned value"""
    for e in st.events:
        for x in e[1:-1]:
            if isinstance(x, tuple) and x and isinstance(x[0], str):
                yield x
    if st.ret is not None:
        yield st.ret


def all_calls(st, callee=None):
    """call terms anywhere in the path's terms (deduplicated, in first-seen order)"""
    seen = []
    for t in terms_of(st):
        for s_ in subterms(t):
            if s_[0] == 'call' and (callee is None or s_[1] == callee) and s_ not in seen:
                seen.append(s_)
    return seen


def calls_in(st, pred=None):
    return [e for e in st.events if e[0] == 'call' and (pred is None or pred(e[1]))]


def is_method_call(t, method, obj=None):
    return (t[0] == 'call' and t[1][0] == 'attr' and t[1][2] == method
            and (obj is None or t[1][1] == obj))


def subterms_guarded(t, guards=()):
    """like subterms(), but yields (subterm, guards) where guards are the (condition, polarity) pairs under
    which the subterm is evaluated inside conditional expressions and short-circuit operators."""
    if not isinstance(t, tuple) or not t:
        return
    if isinstance(t[0], str):
        yield t, guards
        if t[0] == 'ifexp':
            for r in subterms_guarded(t[1], guards):
                yield r
            for r in subterms_guarded(t[2], guards + ((t[1], True),)):
                yield r
            for r in subterms_guarded(t[3], guards + ((t[1], False),)):
                yield r
            return
        if t[0] == 'bool':
            g = guards
            for x in t[2]:
                for r in subterms_guarded(x, g):
                    yield r
                g = g + ((x, t[1] == 'and'),)
            return
    for x in t:
        if isinstance(x, tuple):
            for r in subterms_guarded(x, guards):
                yield r
