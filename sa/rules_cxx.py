"""Rules over depccg/parsing.h (clang AST), shared by C01 C02 C09 C10 C11 C12 C16.

Every rule compares terms *extracted from the current header* with a
specification term built from discovered roles; comparison is on canonical
forms (linear forms for float sums, sorted operands for commutative
operators), so operand order, extra locals and parenthesisation do not matter.
"""
from . import cxx
from .cxx import term, show, strip, subterms, simplify_cond
from .parse_model import (ParseModel, Paths, canon, flin, V, M, IDX, ADD, SUB, LIT, unaddr, H)
from .core import AnalysisError


def _w(line, fn='parse_sentence'):
    return '%s:%s %s' % (H, line, fn)


def lin_text(l):
    return cxx.show_linear(l)


def conjuncts(t):
    if t[0] == 'bin' and t[1] == '&&':
        return conjuncts(t[2]) + conjuncts(t[3])
    return [t]


def disjuncts(t):
    if t[0] == 'bin' and t[1] == '||':
        return disjuncts(t[2]) + disjuncts(t[3])
    return [t]


def expand_methods(t, m):
    """Rewrite X.end_of_span() -> X.start_of_span + X.span_length, X.score() -> in+out
    (the definitions are checked separately by r_item_methods)."""
    def rw(x):
        if not isinstance(x, tuple):
            return x
        if x and x[0] == 'mcall' and x[2] == 'end_of_span' and not x[3]:
            b = rw(x[1])
            return ADD(M(b, 'start_of_span'), M(b, 'span_length'))
        if x and x[0] == 'mcall' and x[2] == 'score' and not x[3]:
            b = rw(x[1])
            return ADD(M(b, 'in_score'), M(b, 'out_score'))
        return tuple(rw(y) for y in x)
    return rw(t)


# ---------------------------------------------------------------------------

def r_item_methods(m, rep, R):
    ci = m.decls['cell_item']
    for name, spec in (('score', ADD(M(('this',), 'in_score'), M(('this',), 'out_score'))),
                       ('end_of_span', ADD(M(('this',), 'start_of_span'), M(('this',), 'span_length')))):
        fn = cxx.method(ci, name)
        p = Paths(fn).paths
        ok = len(p) == 1 and p[0][2] is not None and not p[0][1] and flin(p[0][2]) == flin(spec)
        rep.check(ok, R, _w(fn.line, 'cell_item::' + name), 'cell_item::%s' % name,
                  'cell_item::%s() returns %s' % (name, canon(spec)),
                  'cell_item::%s() returns %s, expected %s'
                  % (name, canon(p[0][2]) if p and p[0][2] else '?', canon(spec)))


def r_priority(m, rep, R='R1.1'):
    """agenda = max-priority queue on in+out; items leave only through top()+pop()."""
    from . import cmpeval
    lt, label = m.agenda_comparator()
    d = m.locals[m.agenda]
    rep.check(lt is not None, R, _w(d.line), 'agenda:type',
              'agenda is a std::priority_queue<cell_item> ordered by %s' % label,
              'the ordering of the agenda cannot be identified: %s' % label)
    if lt is not None:
        score = lambda v, s_: v[(s_, 'in_score')] + v[(s_, 'out_score')]

        def spec(v):
            l_, r_ = score(v, 'L'), score(v, 'R')
            return None if l_ == r_ else l_ < r_
        ok, detail = cmpeval.judge(lt, spec)
        rep.check(ok, R, _w(lt.line, label), 'operator<:order',
                  '%s(a,b) is a.score() < b.score() (max-heap on in+out): %s' % (label, detail),
                  '%s(a,b) does not order by in+out ascending (so that top() is the best item): %s' % (label, detail))
    r_item_methods(m, rep, R)
    # uses of the agenda
    uses = {}
    for n in m.ps.find('CXXMemberCallExpr'):
        c = strip(n.kids[0])
        if c.kids and term(c.kids[0], m.env) == V(m.agenda):
            uses.setdefault(c.name, []).append(n)
    extra = set(uses) - {'push', 'top', 'pop', 'size', 'empty'}
    rep.check(not extra, R, _w(d.line), 'agenda:api', 'agenda is used only through push/top/pop/size',
              'agenda also used through %s' % sorted(extra))
    body = cxx.for_parts(m.main_loop)[3]
    stmts = list(body.kids)
    ok = (len(uses.get('top', [])) == 1 and len(uses.get('pop', [])) == 1 and len(stmts) >= 2
          and uses['top'][0] in list(stmts[0].walk()) and stmts[1] is uses['pop'][0])
    rep.check(ok, R, _w(body.line), 'agenda:top-pop',
              'the search loop begins with <item> = agenda.top(); agenda.pop(); and no other top/pop exists',
              'agenda.top()/pop() are not the first two statements of the search loop (or occur elsewhere)')


def r_best(m, rep, R='R1.2b'):
    """definitions of the atoms BT, BD, D_all and of the per-word queues."""
    v = m.init_var
    for loop_, lo, cond, step in m.init_headers:
        ok = lo == LIT(0) and step and canon(cond) == canon(('bin', '<', V(v), V(m.p_len)))
        rep.check(ok, R, _w(loop_.line), 'init-loop:range',
                  'initialisation loop visits every token 0..length-1',
                  'initialisation loop header is (%s; %s)' % (show(lo), show(cond)))
    rep.check(m.BT is not None, R, _w(m.init_loop.line), 'BT:def',
              'BT[t] := top of word t\'s queue (%s)' % canon(m.best_tag_term),
              'no vector is assigned %s per token' % canon(m.best_tag_term))
    rep.check(m.BD is not None, R, _w(m.init_loop.line), 'BD:def',
              'BD[t] := dep(t, argmax_h dep(t,h)) (%s)' % canon(m.best_dep_term),
              'no vector is assigned %s per token' % canon(m.best_dep_term))
    rep.check(m.DALL is not None, R, _w(m.init_loop.line), 'DALL:def',
              'D_all accumulates the same expression as BD[t] over all tokens',
              'no accumulator sums %s over all tokens' % canon(m.best_dep_term))
    if m.DALL:
        d = m.locals.get(m.DALL)
        init = m.env.init_of(d) if d is not None else None
        if m.DALL in getattr(m, 'member_init', {}):
            ok = m.member_init[m.DALL] in (LIT(0), LIT(0.0))      # a member of a record local: its constructor initialiser
        else:
            ok = init is not None and term(init, m.env) in (LIT(0), LIT(0.0))
        if getattr(m, 'DALL_sum', None) is not None and d is not None:
            # the sum of the finished BD vector, taken after the loop that fills it
            idx_ = {id(s_): i_ for i_, s_ in enumerate(m.top)}
            where = [i_ for i_, s_ in enumerate(m.top) if s_.kind == 'DeclStmt' and any(k_ is d for k_ in s_.kids)]
            ok = m.DALL_sum in (LIT(0), LIT(0.0)) and bool(where) and where[0] > max(idx_[id(l_)] for l_ in m.init_loops)
        rep.check(ok, R, _w(d.line if d else 0), 'DALL:init', 'D_all starts at 0', 'D_all does not start at 0')
    # queue fill: scored[t].emplace(TAG(t, c), c) for c in [0, num_tags)
    fills = []
    fill_var = {}
    for loop_ in m.init_loops:
        body = cxx.for_parts(loop_)[3]
        v_i = m.init_vars[id(loop_)]
        for n in body.find('CXXMemberCallExpr'):
            c = strip(n.kids[0])
            if c.name in ('emplace', 'push') and c.kids and \
                    canon(term(c.kids[0], m.env)) == canon(IDX(V(m.scored), V(v_i))):
                fills.append(n)
                fill_var[id(n)] = v_i
    okfill = False
    msg = 'queue of word t is not filled'
    if len(fills) == 1:
        n = fills[0]
        args = [term(a, m.env) for a in n.kids[1:]]
        if len(args) == 1 and args[0][0] in ('init', 'ctor'):
            args = list(args[0][-1])
        loop = None
        for p in n.ancestors():
            if p.kind == 'ForStmt' and not any(p is l_ for l_ in m.init_loops):
                loop = p
                break
        if loop is not None and len(args) == 2:
            cv, clo, ccond, cstep, _ = m._loop_header(loop)
            want = [IDX(V(m.TAG), V(fill_var[id(n)]), V(cv)), V(cv)]
            okfill = (clo == LIT(0) and cstep
                      and canon(ccond) == canon(('bin', '<', V(cv), M(V(m.p_config), 'num_tags')))
                      and [canon(a) for a in args] == [canon(w) for w in want])
            msg = 'queue fill is (%s) for %s in [%s; %s)' % (', '.join(canon(a) for a in args), cv,
                                                             show(clo), canon(ccond))
            # every tag: nothing in the loop skips one (the beta threshold and the pruning_size count are taken over the
            # whole row of the word, not over the tags some test thought useful)
            lbody = cxx.for_parts(loop)[3]
            skips = [k.kind for k in lbody.walk() if k.kind in ('ContinueStmt', 'BreakStmt', 'ReturnStmt', 'GotoStmt')]
            guarded = [p_.kind for p_ in n.ancestors() if p_.kind in ('IfStmt', 'ConditionalOperator', 'SwitchStmt', 'WhileStmt', 'DoStmt')
                       and any(p_ is k for k in lbody.walk())]
            shortcut = [p_ for p_ in n.ancestors() if p_.kind == 'BinaryOperator' and p_.op in ('&&', '||') and any(p_ is k for k in lbody.walk())]
            if okfill and (skips or guarded or shortcut):
                okfill = False
                msg = 'the fill loop leaves tags out (%s): the word\'s best tag and the pruning_size count are then taken over what is left of its row' % \
                    ', '.join(skips + guarded + ['&&' for _ in shortcut])
    rep.check(okfill, R, _w(m.init_loop.line), 'scored:fill',
              'word t\'s queue holds (TAG(t,c), c) for every c in [0, num_tags)', msg)
    d = m.locals[m.scored]
    t = (d.dtype or d.type or '').replace(' ', '')
    pair = 'std::pair<float,unsignedint>'
    ok = t in ('std::vector<std::priority_queue<%s,std::vector<%s>,std::less<%s>>>' % (pair, pair, pair),
               'std::vector<std::priority_queue<%s>>' % pair)
    if not ok:
        # a record that is a (score, category) pair under another name, with an ordering of its own that puts the higher
        # score on top
        from . import cmpeval
        for rname in cxx.PAIR_RECORDS:
            if t in ('std::vector<std::priority_queue<%s,std::vector<%s>,std::less<%s>>>' % (rname, rname, rname),
                     'std::vector<std::priority_queue<%s>>' % rname):
                cmp_ = m.pair_comparator(rname)
                if cmp_ is not None:
                    def pspec(v):
                        if v[('L', 'first')] != v[('R', 'first')]:
                            return v[('L', 'first')] < v[('R', 'first')]
                        return None
                    ok, why_ = cmpeval.judge(cmp_, pspec)
    rep.check(ok, R, _w(d.line), 'scored:type',
              'candidate queues are max-heaps of (score, category) pairs: %s' % d.type,
              'candidate queues have type %s' % d.type)
    # matrix shapes
    ok = [canon(x) for x in m.TAG_dims] == [canon(V(m.p_len)), canon(M(V(m.p_config), 'num_tags'))]
    rep.check(ok, R, _w(m.locals[m.TAG].line), 'TAG:shape', 'tag matrix is length x num_tags',
              'tag matrix dims are %s' % [canon(x) for x in m.TAG_dims])
    ok = [canon(x) for x in m.DEP_dims] == [canon(V(m.p_len)), canon(ADD(V(m.p_len), LIT(1)))]
    rep.check(ok, R, _w(m.locals[m.DEP].line), 'DEP:shape', 'dependency matrix is length x (length+1)',
              'dependency matrix dims are %s' % [canon(x) for x in m.DEP_dims])
    rep.check(m.T_OUT is not None and m.D_OUT is not None, R, _w(m.outside[0][3].line), 'outside:calls',
              'outside tables are computed from BT and BD by compute_outside_probabilities',
              'compute_outside_probabilities is not called once with BT and once with BD')
    for vec, ln, mat, st in m.outside:
        rep.check(ln == V(m.p_len), R, _w(st.line), 'outside:length:' + show(mat),
                  'outside table %s is computed for the sentence length' % show(mat),
                  'outside table %s is computed with length %s' % (show(mat), show(ln)))
    for name, a in m.square:
        ok = a is not None and len(a) == 2 and all(canon(x) == canon(ADD(V(m.p_len), LIT(1))) for x in a)
        rep.check(ok, R, _w(m.locals[name].line), 'outside:shape:' + name,
                  'outside table %s is (length+1) x (length+1)' % name,
                  'outside table %s has dims %s' % (name, [canon(x) for x in (a or ())]))
    r_locals_automatic(m, rep, R)
    # statement order: init loop < outside calls < leaf loop < search loop
    idx = {id(s): i for i, s in enumerate(m.top)}
    order = [max(idx[id(l_)] for l_ in m.init_loops)] + [idx[id(o[3])] for o in m.outside] + [idx[id(m.leaf_loop)], idx[id(m.main_loop)]]
    derived_ok = all(max(order[1:3]) < idx[id(l_)] < order[3] for l_ in getattr(m, 'derived_loops', ()))
    rep.check(order[0] < min(order[1:3]) and max(order[1:3]) < order[3] < order[4] and derived_ok, R,
              _w(m.init_loop.line), 'order', 'atoms are computed before the agenda is seeded, seeding before search',
              'statement order of initialisation / outside tables / seeding / search is wrong')
    # matrix accessor
    mat = m.decls['matrix']
    for op in cxx.method(mat, 'operator()', all_=True):
        p = Paths(op).paths
        ps_ = [x.name for x in cxx.params_of(op)]
        spec = IDX(M(('this',), 'data_'), ADD(('bin', '*', V(ps_[0]), M(('this',), 'column_')), V(ps_[1])))
        ok = len(p) == 1 and p[0][2] is not None and canon(p[0][2]) == canon(spec)
        rep.check(ok, R, _w(op.line, 'matrix::operator()'), 'matrix:index',
                  'matrix(r,c) is data[r*columns + c]',
                  'matrix(r,c) is %s' % (canon(p[0][2]) if p and p[0][2] else '?'))
    r_utils_argmax(m, rep, R)
    am = cxx.method(mat, 'argmax')
    p = Paths(am).paths
    pr = cxx.params_of(am)[0].name
    base = ADD(M(('this',), 'data_'), ('bin', '*', V(pr), M(('this',), 'column_')))
    spec = ('call', 'argmax', (base, ADD(base, M(('this',), 'column_'))))
    ok = len(p) == 1 and p[0][2] is not None and canon(p[0][2]) == canon(spec)
    rep.check(ok, R, _w(am.line, 'matrix::argmax'), 'matrix:argmax',
              'matrix::argmax(r) scans exactly row r', 'matrix::argmax(r) is %s'
              % (canon(p[0][2]) if p and p[0][2] else '?'))


def r_locals_automatic(m, rep, R):
    # every working object of the search is a fresh automatic local of this call (nothing survives between sentences)
    persistent = sorted(n_ for n_, d_ in m.locals.items() if d_.storage)
    rep.check(not persistent, R, _w(m.body.line), 'locals:automatic', 'all %d locals of parse_sentence have automatic storage: every sentence starts from fresh queues, tables and charts' % len(m.locals),
              'locals with static / thread storage keep their contents between sentences: %s' % [(n_, m.locals[n_].storage) for n_ in persistent])


def r_utils_argmax(m, rep, R):
    """utils::argmax returns the index of a maximum of [from, to): starts from lowest(), updates on <= or <, scans every element."""
    fn = m.decls['utils::argmax']
    env = cxx.Env(fn)
    pr = [p.name for p in cxx.params_of(fn)]
    w = _w(fn.line, 'utils::argmax')
    body = cxx.body_of(fn)
    decl = {d.name: (term(env.init_of(d), env) if env.init_of(d) is not None else None) for d in body.find('VarDecl')}
    loops = body.find('WhileStmt') + body.find('ForStmt')
    rets = [term(r.kids[0], env) for r in body.find('ReturnStmt') if r.kids]
    ok = len(loops) == 1 and len(rets) == 1 and rets[0][0] == 'var'
    detail = 'shape'
    if ok:
        idxv = rets[0][1]
        lp = loops[0]
        cursor = pr[0]                 # what walks over [from, to): the parameter itself, or a loop variable started at it
        if lp.kind == 'WhileStmt':
            cond_n, lbody, inc_nodes = lp.kids[0], lp.kids[1], []
        else:
            init, cond_n, inc, lbody = cxx.for_parts(lp)
            inc_nodes = list(inc.walk()) if inc is not None else []
            for d in (init.find('VarDecl') if init is not None else []):
                i0 = env.init_of(d)
                if i0 is not None and term(i0, env) == V(pr[0]):
                    cursor = d.name
                    decl.pop(d.name, None)
        okcond = cond_n is not None and canon(term(cond_n, env)) in (canon(('bin', '!=', V(cursor), V(pr[1]))), canon(('bin', '<', V(cursor), V(pr[1]))))
        ifs = lbody.find('IfStmt')
        in_body = [n for n in lbody.find('UnaryOperator') if n.op == '++' and not any(a.kind == 'IfStmt' for a in n.ancestors() if a is not lp and a in list(lp.walk()))]
        in_inc = [n for n in inc_nodes if n.kind == 'UnaryOperator' and n.op == '++']
        incs = {strip(n.kids[0]).ref for n in in_body + in_inc}
        ok = okcond and len(ifs) == 1
        if ok:
            c = term(ifs[0].kids[0], env)
            maxv = None
            cur = ('deref', V(cursor))
            for cand in decl:
                if canon(c) in (canon(('bin', '<=', V(cand), cur)), canon(('bin', '<', V(cand), cur))):
                    maxv = cand
            assigns = {canon(term(a.kids[0], env)): canon(term(a.kids[1], env)) for a in ifs[0].kids[1].find('BinaryOperator') if a.op == '='}
            counter = [v for v in decl if v not in (maxv, idxv)]
            ok = maxv is not None and len(counter) == 1 and assigns == {idxv: counter[0], maxv: canon(cur)} and \
                {cursor, counter[0]} <= incs and decl.get(counter[0]) == LIT(0) and \
                decl.get(maxv) is not None and decl[maxv][0] == 'call' and decl[maxv][1] == 'lowest'
            detail = 'test %s, updates %s, start %s' % (canon(c), assigns, show(decl.get(maxv)) if maxv else None)
        if not ok and lp.kind == 'ForStmt' and len(lp.kids[4].find('IfStmt')) == 1:
            # the same scan by position:  for (i = 0; from + i != to; i++)  with the element spelt from[i]
            init, cond_n, inc, lbody = cxx.for_parts(lp)
            ifs = lbody.find('IfStmt')
            ivs = [d for d in (init.find('VarDecl') if init is not None else []) if env.init_of(d) is not None and term(env.init_of(d), env) == LIT(0)]
            if len(ivs) == 1 and cond_n is not None:
                i_ = ivs[0].name
                def uncast(t_):
                    # static_cast<int>(to - from) is to - from for the sizes of a row
                    if isinstance(t_, tuple) and t_ and t_[0] in ('cast', 'scast') and isinstance(t_[-1], tuple):
                        return uncast(t_[-1])
                    return tuple(uncast(x_) if isinstance(x_, tuple) else x_ for x_ in t_) if isinstance(t_, tuple) else t_
                # a const local that only names the length of the range
                span = ('bin', '-', V(pr[1]), V(pr[0]))
                sizes = [k_ for k_, v_ in decl.items() if v_ is not None and canon(uncast(v_)) == canon(span) and k_ not in env.mutated_names()] if hasattr(env, 'mutated_names') else \
                    [k_ for k_, v_ in decl.items() if v_ is not None and canon(uncast(v_)) == canon(span)]
                ct = canon(uncast(cxx.subst(term(cond_n, env), {V(k_): span for k_ in sizes})))
                pos = ('bin', '+', V(pr[0]), V(i_))
                okcond = ct in (canon(('bin', '!=', pos, V(pr[1]))), canon(('bin', '<', pos, V(pr[1]))),
                                canon(('bin', '<', V(i_), span)), canon(('bin', '!=', V(i_), span)))
                stepped = inc is not None and {strip(n.kids[0]).ref for n in inc.walk() if n.kind == 'UnaryOperator' and n.op == '++'} == {i_}
                touched = [n for n in lbody.walk() if n.kids and strip(n.kids[0]).ref in (i_, pr[0], pr[1]) + tuple(sizes) and (
                    (n.kind == 'UnaryOperator' and n.op in ('++', '--')) or (n.kind == 'BinaryOperator' and n.op == '=') or n.kind == 'CompoundAssignOperator')]
                c = term(ifs[0].kids[0], env)
                elem_terms = (IDX(V(pr[0]), V(i_)), ('deref', pos))
                elems = [canon(e_) for e_ in elem_terms]
                maxv = None
                locs = {k_: v_ for k_, v_ in decl.items() if k_ != i_ and k_ not in sizes}
                for cand in locs:
                    for op_ in ('<=', '<'):
                        if canon(c) in [canon(('bin', op_, V(cand), e_)) for e_ in elem_terms]:
                            maxv = cand
                assigns = {canon(term(a.kids[0], env)): canon(term(a.kids[1], env)) for a in ifs[0].kids[1].find('BinaryOperator') if a.op == '='}
                ok = bool(okcond and stepped and not touched and maxv is not None and set(assigns) == {idxv, maxv} and assigns.get(idxv) == i_
                          and assigns.get(maxv) in elems and set(locs) == {maxv, idxv}
                          and locs.get(maxv) is not None and locs[maxv][0] == 'call' and locs[maxv][1] == 'lowest')
                detail = 'by position: test %s, updates %s, start %s' % (canon(c), assigns, show(locs.get(maxv)) if maxv else None)
    if not ok and len(loops) == 1 and len(rets) == 1 and loops[0].kind == 'ForStmt':
        # the same scan remembering where the maximum sits:  for (T *pos = from; pos != to; ++pos) if (max <= *pos) { at = pos; max = *pos; }
        # return at == nullptr ? -1 : int(at - from)
        try:
            init, cond_n, inc, lbody = cxx.for_parts(loops[0])
            ivs = [d for d in (init.find('VarDecl') if init is not None else []) if env.init_of(d) is not None and term(env.init_of(d), env) == V(pr[0])]
            ifs = lbody.find('IfStmt')
            if len(ivs) == 1 and len(ifs) == 1 and cond_n is not None:
                pos_ = ivs[0].name
                okcond = canon(term(cond_n, env)) in (canon(('bin', '!=', V(pos_), V(pr[1]))), canon(('bin', '<', V(pos_), V(pr[1]))))
                stepped = inc is not None and {strip(n.kids[0]).ref for n in inc.walk() if n.kind == 'UnaryOperator' and n.op == '++'} == {pos_}
                touched = [n for n in lbody.walk() if n.kids and strip(n.kids[0]).ref in (pos_, pr[0], pr[1]) and (
                    (n.kind == 'UnaryOperator' and n.op in ('++', '--')) or (n.kind == 'BinaryOperator' and n.op == '=') or n.kind == 'CompoundAssignOperator')]
                c = term(ifs[0].kids[0], env)
                cur = ('deref', V(pos_))
                locs = {k_: v_ for k_, v_ in decl.items() if k_ != pos_}
                maxv = next((cand for cand in locs if canon(c) in (canon(('bin', '<=', V(cand), cur)), canon(('bin', '<', V(cand), cur)))), None)
                assigns = {canon(term(a.kids[0], env)): canon(term(a.kids[1], env)) for a in ifs[0].kids[1].find('BinaryOperator') if a.op == '='}
                at = [k_ for k_ in locs if k_ != maxv]
                r0 = rets[0]

                def uncast2(t_):
                    while isinstance(t_, tuple) and t_ and t_[0] in ('cast', 'scast') and isinstance(t_[-1], tuple):
                        t_ = t_[-1]
                    return t_
                ret_ok = False
                if len(at) == 1 and r0[0] == 'cond':
                    test_, a_, b_ = r0[1], uncast2(r0[2]), uncast2(r0[3])
                    null_ = canon(test_) in (canon(('bin', '==', V(at[0]), LIT(None))), canon(('un', '!', V(at[0]))))
                    nonnull_ = canon(test_) in (canon(('bin', '!=', V(at[0]), LIT(None))), canon(V(at[0])))
                    diff = canon(('bin', '-', V(at[0]), V(pr[0])))
                    ret_ok = (null_ and a_ in (LIT(-1),) and canon(b_) == diff) or (nonnull_ and canon(a_) == diff and b_ in (LIT(-1),))
                ok = bool(okcond and stepped and not touched and maxv is not None and len(at) == 1 and assigns == {at[0]: pos_, maxv: canon(cur)}
                          and locs.get(at[0]) == LIT(None) and locs.get(maxv) is not None and locs[maxv][0] == 'call' and locs[maxv][1] == 'lowest' and ret_ok)
                detail = 'by pointer: test %s, updates %s, returns %s' % (canon(c), assigns, canon(r0))
        except AnalysisError:
            pass
    rep.check(ok, R, w, 'utils::argmax', 'argmax scans [from, to) from the lowest value and returns the position of a maximum (%s)' % detail,
              'utils::argmax does not return the position of a maximum: %s' % detail)


def _for_bounds(m_env, loop):
    init, cond, inc, body = cxx.for_parts(loop)
    vd = init.find('VarDecl')[0]
    lo = term(cxx.Env.init_of(m_env, vd), m_env)
    c = term(cond, m_env)
    i = strip(inc)
    step = i.kind == 'UnaryOperator' and i.op == '++' and strip(i.kids[0]).ref == vd.name
    return vd.name, lo, c, step, body


def _lin_int(t):
    """integer linear form {atom: coeff, '#': const}"""
    out = {}

    def add(x, s):
        if x[0] == 'bin' and x[1] in ('+', '-'):
            add(x[2], s)
            add(x[3], s if x[1] == '+' else -s)
        elif x[0] == 'lit' and isinstance(x[1], (int, float)) and not isinstance(x[1], bool):
            out['#'] = out.get('#', 0) + s * x[1]
        else:
            k = canon(x)
            out[k] = out.get(k, 0) + s
    add(t, 1)
    return {k: v for k, v in out.items() if v != 0 or k == '#'}


def _upper(cond, var):
    """exclusive upper bound (as int linear form) of `var` from `var < B`, `var <= B`, `var + k < B`."""
    if cond[0] != 'bin' or cond[1] not in ('<', '<=', '>', '>='):
        return None
    op, a, b = cond[1], cond[2], cond[3]
    if op in ('>', '>='):
        a, b = b, a
        op = {'>': '<', '>=': '<='}[op]
    la, lb = _lin_int(a), _lin_int(b)
    if la.get(var, 0) != 1 or lb.get(var, 0) != 0:
        return None
    ub = dict(lb)
    for k, v in la.items():
        if k != var:
            ub[k] = ub.get(k, 0) - v
    if op == '<=':
        ub['#'] = ub.get('#', 0) + 1
    return {k: v for k, v in ub.items() if v != 0}


def r_outside_fn(m, rep, R='R1.2c'):
    """compute_outside_probabilities: prefix/suffix sums and out(i,j) = left[i] + right[j]."""
    fn = m.decls['compute_outside_probabilities']
    env = cxx.Env(fn)
    pr = [p.name for p in cxx.params_of(fn)]
    if len(pr) != 3:
        raise AnalysisError('%s: compute_outside_probabilities has %d parameters' % (H, len(pr)))
    probs, length, out = pr
    w = lambda n: _w(n.line, 'compute_outside_probabilities')
    body = cxx.body_of(fn)
    vecs = [d for d in body.find('VarDecl') if 'vector<float>' in (d.type or '')]
    assigns = []
    for n in body.walk():
        if n.kind == 'BinaryOperator' and n.op == '=':
            assigns.append((term(n.kids[0], env), term(n.kids[1], env), n))
    loops = [s for s in body.kids if s.kind == 'ForStmt']
    psums = [term(s_, env) for s_ in body.kids if strip(s_).kind == 'CallExpr' and (strip(strip(s_).kids[0]).ref or '') == 'partial_sum']
    if len(loops) == 1 and len(vecs) == 2 and len(psums) == 2:
        # the two running sums written with std::partial_sum: out[k] = in[0] + .. + in[k] from the given output position on.
        #   forward:  partial_sum(p.begin(), p.end(), L.begin() + a)     gives L[a + k] = p[0] + .. + p[k]
        #   backward: partial_sum(p.rbegin(), p.rend(), R.rbegin() + b)  gives R[length - b - k] = p[length-1-k] + .. + p[length-1]
        # the table needs L[i] = sum of p below i and R[j] = sum of p from j on: a = 1 and b = 1, on zero-filled vectors
        def zero_filled0(name):
            for d in vecs:
                if d.name == name:
                    i = env.init_of(d)
                    t = term(i, env) if i is not None else None
                    return t is not None and t[0] == 'ctor' and 1 <= len(t[2]) <= 3 and all(a in (LIT(0), LIT(0.0), ('default',)) for a in t[2][1:])
            return False
        lv = rv = None
        detail = []
        for t in psums:
            a_ = t[2]
            if len(a_) != 3:
                continue
            first, last, outp = a_
            off = LIT(0)
            if outp[0] == 'bin' and outp[1] == '+':
                outp, off = outp[2], outp[3]
            if first == ('mcall', V(probs), 'begin', ()) and last == ('mcall', V(probs), 'end', ()) and outp[0] == 'mcall' and outp[2] == 'begin' and outp[1][0] == 'var':
                lv = (outp[1], off)
                detail.append('%s from begin()+%s' % (outp[1][1], canon(off)))
            if first == ('mcall', V(probs), 'rbegin', ()) and last == ('mcall', V(probs), 'rend', ()) and outp[0] == 'mcall' and outp[2] == 'rbegin' and outp[1][0] == 'var':
                rv = (outp[1], off)
                detail.append('%s from rbegin()+%s' % (outp[1][1], canon(off)))
        okp = lv is not None and rv is not None and lv[1] == LIT(1) and rv[1] == LIT(1) and zero_filled0(lv[0][1]) and zero_filled0(rv[0][1])
        rep.check(okp, R, w(body), 'outside:sum-range',
                  'the prefix sums start one position in (from_left[i] = p[0..i-1]) and so do the suffix sums (from_right[j] = p[j..]), on zero-filled vectors (%s)' % '; '.join(detail),
                  'the running sums written with std::partial_sum are %s: a sum that starts at the first position of its vector includes the word at the boundary itself, so the '
                  'estimate of a span also counts the best scores of one of its own words and is no longer an upper bound of what remains' % ('; '.join(detail) or 'not recognised'))
        if lv is None or rv is None:
            return
        left, right = (lv[0],), (rv[0],)
        _outside_table(m, rep, R, env, body, loops[0], assigns, left, right, length, out, w, vecs)
        return
    if len(loops) not in (2, 3) or len(vecs) != 2:
        raise AnalysisError('%s: compute_outside_probabilities: unexpected shape (%d loops, %d vectors)'
                            % (H, len(loops), len(vecs)))
    # the last loop fills the table; the prefix and suffix sums are accumulated in one loop before it, or in one loop each
    sum_loops = loops[:-1]
    loops = [sum_loops[0], loops[-1]]

    def loop_range(loop):
        """-> (var, (kmin_len, kmin_const), (kmax_len, kmax_const)) values the loop variable takes, as a*length + b;
        ascending `v = c; v < U; v++` or descending `v = H; v > c; v--`; None when not of these forms"""
        init, cond, inc, lbody = cxx.for_parts(loop)
        vds = init.find('VarDecl') if init is not None else []
        if len(vds) != 1:
            return None
        var = vds[0].name
        start = _lin_int(term(env.init_of(vds[0]), env))
        i_ = strip(inc)
        if not (i_.kind == 'UnaryOperator' and i_.op in ('++', '--') and strip(i_.kids[0]).ref == var):
            return None
        c = term(cond, env)
        if c[0] != 'bin' or c[1] not in ('<', '<=', '>', '>='):
            return None
        op, l_, r_ = c[1], _lin_int(c[2]), _lin_int(c[3])
        if l_.get(var, 0) == 0 and r_.get(var, 0) == 1:
            l_, r_ = r_, l_
            op = {'<': '>', '>': '<', '<=': '>=', '>=': '<='}[op]
        if l_.get(var, 0) != 1 or r_.get(var, 0) != 0:
            return None
        bound = dict(r_)
        for k_, v_ in l_.items():
            if k_ != var:
                bound[k_] = bound.get(k_, 0) - v_
        lin = lambda d_: (d_.get(length, 0), d_.get('#', 0)) if set(d_) <= {length, '#'} else None
        st_, bd_ = lin(start), lin(bound)
        if st_ is None or bd_ is None:
            return None
        if i_.op == '++' and op in ('<', '<='):
            hi = bd_ if op == '<=' else (bd_[0], bd_[1] - 1)
            return var, st_, hi
        if i_.op == '--' and op in ('>', '>='):
            lo_ = bd_ if op == '>=' else (bd_[0], bd_[1] + 1)
            return var, lo_, st_
        return None

    def index_range(idx_t, rng):
        """range of the index expression (+-var + a*length + b) over the loop range"""
        var, lo_, hi_ = rng
        li = _lin_int(idx_t)
        c = li.get(var, 0)
        if c not in (1, -1) or not set(li) <= {var, length, '#'}:
            return None
        off = (li.get(length, 0), li.get('#', 0))
        if c == 1:
            return (lo_[0] + off[0], lo_[1] + off[1]), (hi_[0] + off[0], hi_[1] + off[1])
        return (off[0] - hi_[0], off[1] - hi_[1]), (off[0] - lo_[0], off[1] - lo_[1])
    left = right = None
    for sl in sum_loops:
        rng = loop_range(sl)
        for tgt, val, n in assigns:
            if n not in list(sl.walk()) or tgt[0] != 'idx' or len(tgt[2]) != 1:
                continue
            vec = tgt[1]
            lv = flin(val)
            idx_t = tgt[2][0]
            want_left = flin(ADD(IDX(vec, SUB(idx_t, LIT(1))), IDX(V(probs), SUB(idx_t, LIT(1)))))
            want_right = flin(ADD(IDX(vec, ADD(idx_t, LIT(1))), IDX(V(probs), idx_t)))
            if lv == want_left:
                left = (vec, idx_t, n, rng, sl)
            elif lv == want_right:
                right = (vec, idx_t, n, rng, sl)
    rep.check(left is not None, R, w(loops[0]), 'outside:left-recurrence',
              'from_left[k] = from_left[k-1] + p[k-1] (prefix sums)', 'prefix-sum recurrence not found')
    rep.check(right is not None, R, w(loops[0]), 'outside:right-recurrence',
              'from_right[k] = from_right[k+1] + p[k] (suffix sums)', 'suffix-sum recurrence not found')
    if left is None or right is None:
        return
    good = False
    detail = 'loops at lines %s' % sorted({left[4].line, right[4].line})
    lr = index_range(left[1], left[3]) if left[3] else None
    rr = index_range(right[1], right[3]) if right[3] else None
    if lr and rr:
        # the prefix sums must ascend (each step reads the entry below), the suffix sums descend in index
        asc_left = _lin_int(left[1]).get(left[3][0], 0) == (1 if strip(cxx.for_parts(left[4])[2]).op == '++' else -1)
        desc_right = _lin_int(right[1]).get(right[3][0], 0) == (-1 if strip(cxx.for_parts(right[4])[2]).op == '++' else 1)
        # need from_left[1..length-1] (length allowed) and from_right[1..length-1] (0 allowed)
        good = (asc_left and desc_right and lr[0] == (0, 1) and lr[1] in ((1, -1), (1, 0)) and rr[1] == (1, -1) and rr[0] in ((0, 0), (0, 1)))
        fmt = lambda b_: ('length%+d' % b_[1] if b_[1] else 'length') if b_[0] == 1 else str(b_[1])
        detail += ': from_left[%s..%s], from_right[%s..%s]' % (fmt(lr[0]), fmt(lr[1]), fmt(rr[0]), fmt(rr[1]))
    rep.check(good, R, w(loops[0]), 'outside:sum-range',
              'prefix sums cover from_left[1..length-1] and suffix sums from_right[1..length-1] (%s)' % detail,
              'prefix/suffix sums do not cover exactly the needed indices: %s' % detail)
    # zero bases
    z = {canon(t): v for t, v, n in assigns if not any(n in list(l_.walk()) for l_ in sum_loops) and n not in list(loops[1].walk())}
    def zero_filled(vec_t):
        """std::vector<float> v(n) / v(n, 0): value-initialised, every element starts as 0"""
        for d in vecs:
            if V(d.name) == vec_t:
                i = env.init_of(d)
                t = term(i, env) if i is not None else None
                if t is not None and t[0] == 'ctor' and 1 <= len(t[2]) <= 3 and all(a in (LIT(0), LIT(0.0), ('default',)) for a in t[2][1:]):
                    return True
        return False

    def base_ok(vec_t, idx_t):
        v_ = z.get(canon(IDX(vec_t, idx_t)))
        return v_ in (LIT(0), LIT(0.0)) or (v_ is None and zero_filled(vec_t))
    okz = base_ok(left[0], LIT(0)) and base_ok(right[0], V(length))
    rep.check(okz, R, w(body), 'outside:base', 'from_left[0] = 0 and from_right[length] = 0',
              'base cases of the prefix/suffix sums are not 0 at index 0 / length')
    _outside_table(m, rep, R, env, body, loops[1], assigns, left, right, length, out, w, vecs)


def _outside_table(m, rep, R, env, body, table_loop, assigns, left, right, length, out, w, vecs):
    loops = [None, table_loop]
    # table fill
    v2, lo2, c2, st2, b2 = _for_bounds(env, loops[1])
    inner = [s for s in b2.walk() if s.kind == 'ForStmt']
    fill = [(t, v, n) for t, v, n in assigns if n in list(loops[1].walk())]
    ok = False
    detail = ''
    if len(inner) == 1 and len(fill) == 1:
        v3, lo3, c3, st3, b3 = _for_bounds(env, inner[0])
        t, val, n = fill[0]
        u2, u3 = _upper(c2, v2), _upper(c3, v3)
        want = flin(ADD(IDX(left[0], V(v2)), IDX(right[0], V(v3))))
        shape = canon(t) == canon(IDX(V(out), V(v2), V(v3))) and flin(val) == want
        lo3l = _lin_int(lo3)
        rng = (lo2 == LIT(0) and st2 and st3 and u2 is not None and u3 is not None
               and u2.get(length, 0) == 1 and set(u2) <= {length, '#'} and 0 <= u2.get('#', 0) <= 1
               and u3 == {length: 1, '#': 1}
               and lo3l.get(v2, 0) == 1 and set(lo3l) <= {v2, '#'} and 0 <= lo3l.get('#', 0) <= 1)
        ok = shape and rng
        detail = '%s = %s for %s in [%s; %s), %s in [%s; %s)' % (canon(t), canon(val), v2, show(lo2), canon(c2),
                                                             v3, canon(lo3), canon(c3))
    rep.check(ok, R, w(loops[1]), 'outside:table',
              'out(i,j) = from_left[i] + from_right[j] for all 0 <= i < j <= length (%s)' % detail,
              'outside table fill is not out(i,j)=from_left[i]+from_right[j] over all spans: %s' % detail)
    # vectors sized length+1, zero-initialised by std::vector(n)
    for d in vecs:
        a = term(env.init_of(d), env)
        ok = a[0] == 'ctor' and len(a[2]) >= 1 and canon(a[2][0]) == canon(ADD(V(length), LIT(1)))
        rep.check(ok, R, w(d), 'outside:vector:' + d.name, '%s has length+1 zero-initialised entries' % d.name,
                  '%s is constructed as %s' % (d.name, show(a)))


def _binary_roles(m, s):
    """-> (L, R, E, O, rulevar, cell_range) for a binary site or raises."""
    L, R = unaddr(s.f['left']), unaddr(s.f['right'])
    if L[0] == 'cond' or R[0] == 'cond':
        # which item is the head decides the dependency score, not the order of the children: the tree printers, the rule
        # labels and the spans all read left / right as the item that starts the span and the one that ends it
        from .core import StructuralViolation
        raise StructuralViolation('R-model', '%s:%s parse_sentence' % (H, s.line), 'binary:left-right',
                                  'the left / right back-pointers of a combined item are chosen by a condition (%s / %s): when it takes the other branch the '
                                  'derivation is stored with its children swapped -- the tree read back from the chart has the words of the two halves in the '
                                  'wrong order and a category that the rule does not give for that order' % (show(L)[:70], show(R)[:70]))
    if L[0] != 'var' or R[0] != 'var':
        raise AnalysisError('%s:%s binary push: back-pointers are not plain items: %s / %s'
                            % (H, s.line, show(L), show(R)))
    ranges = [c for c in s.ctx if c[0] == 'range']
    if len(ranges) < 3:
        raise AnalysisError('%s:%s binary push is not inside cell/item/rule loops' % (H, s.line))
    rule = ranges[-1]
    other = ranges[-2]
    cell = ranges[-3]
    O = V(other[1])
    E = L if R == O else R if L == O else None
    if E is None:
        raise AnalysisError('%s:%s binary push: neither back-pointer is the neighbour loop variable' % (H, s.line))
    return L, R, E, O, rule, other, cell


def r_estimates(m, rep, R, part):
    """in_score / out_score of every pushed item against the recurrences.  part in {'in','out'}"""
    fld = part + '_score'
    cfg = V(m.p_config)
    for s in m.sites:
        f = s.f
        got = expand_methods(f[fld], m)
        if s.kind == 'leaf':
            t = _leaf_token(m, s)
            sc = _leaf_candidate(m, s)
            if part == 'in':
                spec = M(sc.TOP, 'first') if sc is not None else None
                if sc is not None:
                    got = sc.resolve(got)
                desc = 'TAG(t,c) (the popped candidate\'s score)'
            else:
                spec = ADD(IDX(V(m.T_OUT or '?'), t, ADD(t, LIT(1))), V(m.DALL or '?'))
                desc = 'T_out(t,t+1) + D_all'
            key = 'leaf:' + fld
        elif s.kind == 'unary':
            Lp = unaddr(f['left'])
            spec = SUB(M(Lp, 'in_score'), M(cfg, 'unary_penalty')) if part == 'in' else M(Lp, 'out_score')
            desc = 'child.in - unary_penalty' if part == 'in' else 'child.out'
            key = 'unary:' + fld
        elif s.kind == 'goal':
            Lp = unaddr(f['left'])
            spec = ADD(M(Lp, 'in_score'), IDX(V(m.DEP), M(Lp, 'head_id'), LIT(0))) if part == 'in' else LIT(0)
            desc = 'item.in + DEP(item.head, root column 0)' if part == 'in' else '0'
            key = 'goal:' + fld
        else:
            L, Rr, E, O, rule, other, cell = _binary_roles(m, s)
            rv = V(rule[1])
            hil = M(rv, 'head_is_left')
            oks, texts = [], []
            # the neighbour comes from the cells that start where the expanded item ends / end where it starts (judged by
            # the adjacency rule): under that, R.start is L.start + L.length, however the code spells the span's end
            if E == L:
                want_cell_ = ('mcall', V(m.chart), 'cells_starting_at', (ADD(M(E, 'start_of_span'), M(E, 'span_length')),))
            else:
                want_cell_ = ('mcall', V(m.chart), 'cells_ending_at', (M(E, 'start_of_span'),))
            got_cell_ = expand_methods(cell[2], m) if cell[2] else None
            adjacent = got_cell_ is not None and canon(got_cell_) == canon(want_cell_)
            for val, (head, child) in ((True, (L, Rr)), (False, (Rr, L))):
                g = simplify_cond(got, {hil: val})
                if adjacent:
                    g = cxx.subst(g, {M(Rr, 'start_of_span'): ADD(M(L, 'start_of_span'), M(L, 'span_length'))})
                start = M(L, 'start_of_span')
                end = ADD(start, M(L, 'span_length'), M(Rr, 'span_length'))
                if part == 'in':
                    spec = ADD(M(L, 'in_score'), M(Rr, 'in_score'),
                               IDX(V(m.DEP), M(child, 'head_id'), ADD(M(head, 'head_id'), LIT(1))))
                else:
                    spec = ADD(IDX(V(m.T_OUT or '?'), start, end), IDX(V(m.D_OUT or '?'), start, end),
                               IDX(V(m.BD or '?'), M(head, 'head_id')))
                oks.append(flin(g) == flin(spec))
                texts.append('head_is_left=%s: got %s, expected %s'
                             % (val, lin_text(flin(g)), lin_text(flin(spec))))
            desc = ('L.in + R.in + DEP(child.head, head.head+1)' if part == 'in'
                    else 'T_out(s,e) + D_out(s,e) + BD[head.head]')
            key = 'binary[%s-left]:%s' % ('expanded' if E == L else 'neighbour', fld)
            rep.check(all(oks), R, s.where(), key, 'binary push %s = %s  {%s}' % (fld, desc, texts[0]),
                      'binary push %s is not %s: %s' % (fld, desc, '; '.join(t for o, t in zip(oks, texts) if not o)))
            continue
        ok = spec is not None and flin(got) == flin(spec)
        rep.check(ok, R, s.where(), key,
                  '%s push %s = %s  {%s}' % (s.kind, fld, desc, lin_text(flin(got))),
                  '%s push %s is %s, expected %s = %s'
                  % (s.kind, fld, lin_text(flin(got)), desc, lin_text(flin(spec)) if spec else '?'))


def _leaf_token(m, s):
    loop = m.leaf_loop
    v, lo, cond, step, body = m._loop_header(loop)
    return V(v)


class _Candidate(object):
    """the candidate a leaf is built from: what `scored[t].top()` held when it was read in this iteration of the
    candidate loop -- kept whole in a local (`c = q.top()`), field by field (`s = q.top().first; k = q.top().second`)
    or unpacked (`std::tie(s, k) = q.top()`).  `resolve` rewrites the locals into TOP / TOP.first / TOP.second."""

    def __init__(self, m, s):
        t = _leaf_token(m, s)
        self.q = IDX(V(m.scored), t)
        self.TOP = ('mcall', self.q, 'top', ())
        want = canon(self.TOP)
        self.map = {}
        self.nodes = []
        for d in m.leaf_loop.find('VarDecl'):
            init = m.env.init_of(d)
            if init is None:
                continue
            ti = term(init, m.env)
            c = canon(ti)
            if c == want:
                self.map[V(d.name)] = self.TOP
                self.nodes.append(d)
            elif ti[0] == 'mem' and canon(ti[1]) == want and ti[2] in ('first', 'second'):
                self.map[V(d.name)] = M(self.TOP, ti[2])
                self.nodes.append(d)
        # std::tie(a, b) = q.top()
        for n in m.leaf_loop.walk():
            if n.kind in ('CXXOperatorCallExpr', 'BinaryOperator'):
                try:
                    tt = term(n, m.env)
                except Exception:
                    continue
                if tt[0] in ('bin', 'opcall') and len(tt) >= 4 and tt[1] == '=' and canon(tt[3]) == want and tt[2][0] == 'call' \
                        and str(tt[2][1]).endswith('tie') and len(tt[2][2]) == 2 and all(a[0] == 'var' for a in tt[2][2]):
                    self.map[tt[2][2][0]] = M(self.TOP, 'first')
                    self.map[tt[2][2][1]] = M(self.TOP, 'second')
                    self.nodes.append(n)
        self.found = bool(self.map)

    def resolve(self, t):
        out = cxx.subst(t, self.map) if self.map else t
        return out


def _leaf_candidate(m, s):
    c = _Candidate(m, s)
    return c if c.found else None


def r_leaf_loop(m, rep, R):
    """the leaf seeding loop visits every token, and the candidate is read before it is popped."""
    v, lo, cond, step, body = m._loop_header(m.leaf_loop)
    ok = lo == LIT(0) and step and canon(cond) == canon(('bin', '<', V(v), V(m.p_len)))
    rep.check(ok, R, _w(m.leaf_loop.line), 'leaf-loop:range', 'seeding loop visits every token 0..length-1',
              'seeding loop header is (%s; %s)' % (show(lo), show(cond)))
    leafs = m.by_kind.get('leaf', [])
    for s in leafs:
        sc = _leaf_candidate(m, s)
        rep.check(sc is not None, R, s.where(), 'leaf:candidate',
                  'the pushed leaf is the candidate read with top() from the token\'s own queue',
                  'no local holds %s[t].top() for the pushed leaf' % m.scored)
        if sc is None:
            continue
        f = s.f
        t = V(v)
        for fld, spec in (('cat', M(sc.TOP, 'second')), ('start_of_span', t), ('span_length', LIT(1)),
                          ('head_id', t), ('left', LIT(None)), ('right', LIT(None)), ('fin', LIT(False))):
            got_ = sc.resolve(f[fld])
            rep.check(canon(got_) == canon(spec), R, s.where(), 'leaf:' + fld,
                      'leaf push %s = %s' % (fld, canon(spec)),
                      'leaf push %s is %s, expected %s' % (fld, canon(got_), canon(spec)))


def _update_delegate(m):
    """name of the cell method that chart::update hands its decision to (`return (*this)(row, column).NAME(item,
    nbest_)`), judged by r_chart like update itself; None when update decides on its own"""
    try:
        upd = cxx.method(m.decls['chart'], 'update')
        pr = [p.name for p in cxx.params_of(upd)]
        P = Paths(upd)
    except Exception:
        return None
    if len(pr) == 3 and len(P.paths) == 1 and P.paths[0][2] is not None:
        r_ = P.paths[0][2]
        sel = {canon(IDX(('this',), V(pr[0]), V(pr[1]))), canon(IDX(('deref', ('this',)), V(pr[0]), V(pr[1])))}
        if r_[0] == 'mcall' and canon(r_[1]) in sel and len(r_[3]) == 2 and r_[3][0] == V(pr[2]):
            return r_[2]
    return None


_CELL_STORES = ('emplace', 'insert', 'push_back', 'emplace_back', 'push_front')


def r_chart(m, rep, R):
    """chart::update is first-pop-wins per (span, category) unless n-best; cells are registered by span."""
    ch = m.decls['chart']
    # judged by outcome first: the paths of update with the cell's methods read in place (however the work is divided
    # between update, contains / emplace, add(item, flag), insert / insert_if_new_category ..)
    try:
        summ = chart_update_summary(m)
    except AnalysisError:
        summ = {'ok': False}
    if summ.get('ok'):
        w_ = _w(summ['update'].line, 'chart::update')
        rep.check(True, R, w_, 'update:cell', 'update(row, column, item) works on cell (row, column)', '')
        rep.check(True, R, w_, 'update:first-pop-wins',
                  'update returns nullptr exactly when !nbest && the cell holds the category, otherwise stores the item once and hands back the stored copy '
                  '(%d combinations of n-best mode / category present / cell empty, cell methods read in place)' % len(summ['table']), '')
        _r_chart_rest(m, rep, R, ch, summ['cell'], summary=summ)
        return
    upd = cxx.method(ch, 'update')
    pr = [p.name for p in cxx.params_of(upd)]
    P = Paths(upd)
    cellv = None
    for d in upd.find('VarDecl'):
        t = term(P.env.init_of(d), P.env) if P.env.init_of(d) is not None else None
        if t is not None and canon(t) in (canon(IDX(('this',), V(pr[0]), V(pr[1]))),
                                          canon(IDX(('deref', ('this',)), V(pr[0]), V(pr[1])))):
            cellv = V(d.name)
    # ... or update hands the decision to a method of the cell: return (*this)(row, column).insert(item, nbest_)
    deleg = None
    if cellv is None and len(P.paths) == 1 and P.paths[0][2] is not None:
        r_ = P.paths[0][2]
        sel = {canon(IDX(('this',), V(pr[0]), V(pr[1]))), canon(IDX(('deref', ('this',)), V(pr[0]), V(pr[1])))}
        if r_[0] == 'mcall' and canon(r_[1]) in sel and len(r_[3]) == 2 and r_[3][0] == V(pr[2]):
            deleg = (r_[2], r_[3][1])
    rep.check(cellv is not None or deleg is not None, R, _w(upd.line, 'chart::update'), 'update:cell',
              'update(row, column, item) works on cell (row, column)',
              'update does not select cell (row, column)')
    if cellv is None and deleg is None:
        return
    # the n-best flag: the bool field initialised from the constructor's second parameter
    flag = None
    for ctor in [k for k in ch.kids if k.kind == 'CXXConstructorDecl' and len(cxx.params_of(k)) == 2]:
        p2 = cxx.params_of(ctor)[1].name
        for init in ctor.kids:
            if init.kind == 'CXXCtorInitializer':
                refs = [x.ref for x in init.walk() if x.kind == 'DeclRefExpr']
                if refs == [p2]:
                    # clang prints the member as anyMemberDecl / name on the initializer
                    flag = init.name
    if flag is None:
        flags = [f for f in cxx.fields_of(ch) if f in ('nbest_',)]
        flag = flags[0] if flags else None
    if flag is None:
        raise AnalysisError('%s: cannot identify the n-best flag of chart' % H)
    A_ = M(('this',), flag)
    if deleg is not None:
        # judge the cell's method instead: same decision table over (keep-duplicates parameter, contains(item.cat))
        cell0 = [k for k in ch.walk() if k.kind == 'CXXRecordDecl' and k.name == 'cell' and cxx.fields_of(k)][0]
        meth = cxx.method(cell0, deleg[0])
        mpr = [p_.name for p_ in cxx.params_of(meth)]
        # the flag may be handed over as it is (keep duplicates) or negated (one per category)
        flag_negated = deleg[1] == ('un', '!', A_)
        rep.check(len(mpr) == 2 and (deleg[1] == A_ or flag_negated), R, _w(upd.line, 'chart::update'), 'update:delegates',
                  'update passes the item and the chart\'s n-best flag%s to cell::%s' % (' (negated)' if flag_negated else '', deleg[0]),
                  'update calls cell::%s with %s as second argument' % (deleg[0], canon(deleg[1])))
        if len(mpr) != 2:
            return
        upd = meth
        P = Paths(meth)
        pr = [None, None, mpr[0]]
        A_ = V(mpr[1])
        cellv = ('this',)
    else:
        flag_negated = False
    B_ = ('mcall', cellv, 'contains', (M(V(pr[2]), 'cat'),))
    keep_ret = ('addr', ('mcall', cellv, 'emplace', (V(pr[2]),)))
    # "was it there already" may also be what the insertion into the category set reports: S.insert(c).second is true exactly
    # when c was not in S before (and c is in S afterwards either way)
    cids_ = M(cellv, 'category_ids') if cellv != ('this',) else M(('this',), 'category_ids')
    INS = [('mem', ('mcall', cids_, fn_, (M(V(pr[2]), 'cat'),)), 'second') for fn_ in ('insert', 'emplace')]
    self_stores = {}
    for fn_, end_ in (('push_front', 'front'), ('push_back', 'back'), ('emplace_front', 'front'), ('emplace_back', 'back')):
        self_stores[canon(('mcall', M(cellv, 'items'), fn_, (V(pr[2]),)))] = canon(('addr', ('mcall', M(cellv, 'items'), end_, ())))
    used_insert_result = [False]

    def evalc(c, env_):
        if c in env_:
            return env_[c]
        if c[0] == 'un' and c[1] == '!':
            v = evalc(c[2], env_)
            return None if v is None else not v
        if c[0] == 'bin' and c[1] in ('&&', '||'):
            a, b = evalc(c[2], env_), evalc(c[3], env_)
            if a is None or b is None:
                return None
            return (a and b) if c[1] == '&&' else (a or b)
        if c[0] == 'lit' and isinstance(c[1], bool):
            return c[1]
        return None
    ok = True
    table = []
    for a in (False, True):
        for b in (False, True):
            env_ = {A_: (not a) if flag_negated else a, B_: b}
            for t_ in INS:
                env_[t_] = not b
            taken = []
            for p_ in P.paths:
                env_p = dict(env_)
                for e_ in p_[1]:
                    if e_[0] == 'decl' and e_[2] in INS:
                        env_p[V(e_[1])] = not b
                        used_insert_result[0] = True
                vals = [evalc(c, env_p) for c, pol in p_[0]]
                if any(v is None for v in vals):
                    ok = False
                if all(v == pol for v, (c, pol) in zip(vals, p_[0])):
                    taken.append(p_)
            want_null = (not a) and b
            effs_ = [e for e in taken[0][1] if e[0] != 'decl' and not (e[0] == 'decl' and e[2] in INS)] if len(taken) == 1 else []
            # the method may store the item itself: one push of the item into `items`, the category registered (by the very
            # insertion whose result is tested, or by a statement), a pointer to the stored copy handed back
            stored = [canon(e) for e in effs_ if canon(e) in self_stores]
            registered = any(e_[0] == 'decl' and e_[2] in INS for e_ in (taken[0][1] if len(taken) == 1 else [])) or any(
                canon(e) in (canon(('mcall', cids_, 'insert', (M(V(pr[2]), 'cat'),))), canon(('mcall', cids_, 'emplace', (M(V(pr[2]), 'cat'),)))) for e in effs_)
            others = [e for e in effs_ if canon(e) not in self_stores and canon(e) not in (
                canon(('mcall', cids_, 'insert', (M(V(pr[2]), 'cat'),))), canon(('mcall', cids_, 'emplace', (M(V(pr[2]), 'cat'),))))]
            if len(taken) == 1 and want_null:
                good = taken[0][2] == LIT(None) and not stored and not others
            elif len(taken) == 1 and stored:
                good = len(stored) == 1 and registered and not others and taken[0][2] is not None and canon(taken[0][2]) == self_stores[stored[0]]
                if good:
                    used_insert_result[0] = True
            else:
                good = len(taken) == 1 and taken[0][2] is not None and canon(taken[0][2]) == canon(keep_ret) and not effs_
            ok = ok and good
            table.append((a, b, canon(taken[0][2]) if len(taken) == 1 and taken[0][2] else None))
    rep.check(ok, R, _w(upd.line, 'chart::update'), 'update:first-pop-wins',
              'update returns nullptr exactly when !nbest && cell.contains(item.cat), otherwise stores the item (decision table over the two tests)',
              'update decision table (nbest, contains) -> result is %s' % table)
    cell = None
    for k in ch.walk():
        if k.kind == 'CXXRecordDecl' and k.name == 'cell' and cxx.fields_of(k):
            cell = k
    if cell is None:
        raise AnalysisError('%s: chart::cell not found' % H)
    if ok and used_insert_result[0] and not [k for k in cell.kids if k.kind == 'CXXMethodDecl' and k.name in ('contains', 'emplace')]:
        # the one method that stores and registers was judged above; there is no separate contains / emplace to look at
        _r_chart_rest(m, rep, R, ch, cell)
        return
    con = cxx.method(cell, 'contains')
    p = Paths(con).paths
    a = cxx.params_of(con)[0].name
    cnt = ('mcall', M(('this',), 'category_ids'), 'count', (V(a),))
    cids = M(('this',), 'category_ids')
    accepted = {canon(('bin', '>', cnt, LIT(0))), canon(('bin', '!=', cnt, LIT(0))),
                canon(('bin', '>=', cnt, LIT(1))), canon(cnt),
                canon(('bin', '!=', ('mcall', cids, 'find', (V(a),)), ('mcall', cids, 'end', ())))}
    rep.check(len(p) == 1 and p[0][2] is not None and canon(p[0][2]) in accepted, R,
              _w(con.line, 'cell::contains'), 'cell:contains', 'cell.contains(c) tests membership of c in the cell\'s category set',
              'cell.contains is %s' % (canon(p[0][2]) if p and p[0][2] else '?'))
    emp = cxx.method(cell, 'emplace')
    P2 = Paths(emp)
    a = cxx.params_of(emp)[0].name
    effs = [canon(e) for e in P2.paths[0][1]] if len(P2.paths) == 1 else []
    want_reg = canon(('mcall', M(('this',), 'category_ids'), 'emplace', (M(V(a), 'cat'),)))
    alt_reg = canon(('mcall', M(('this',), 'category_ids'), 'insert', (M(V(a), 'cat'),)))
    stores = [canon(('mcall', M(('this',), 'items'), fn, (V(a),))) for fn in ('push_front', 'push_back', 'emplace_front', 'emplace_back')]
    ret = canon(P2.paths[0][2]) if len(P2.paths) == 1 and P2.paths[0][2] else ''
    st = [e for e in effs if e in stores]
    ok = (want_reg in effs or alt_reg in effs) and len(st) == 1 and \
        ret == canon(('mcall', M(('this',), 'items'), 'front' if 'front' in st[0] else 'back', ()))
    rep.check(ok, R, _w(emp.line, 'cell::emplace'), 'cell:emplace',
              'cell.emplace(item) records item.cat and returns a reference to the stored copy',
              'cell.emplace effects are %s, returns %s' % (effs, ret))
    _r_chart_rest(m, rep, R, ch, cell)


def _r_chart_rest(m, rep, R, ch, cell, summary=None):
    if summary is not None and summary.get('registers_in_update'):
        # update itself lists a cell under its span when the cell receives its first item (judged with update's paths): the
        # accessor is then a plain index
        acc = summary.get('accessor')
        if acc is not None:
            op = cxx.method(ch, acc)
            pr = [p.name for p in cxx.params_of(op)]
            ps_ = Paths(op).paths
            okidx = len(pr) == 2 and len(ps_) == 1 and ps_[0][2] is not None and not [e for e in ps_[0][1] if e[0] != 'decl'] and \
                ps_[0][2][0] == 'idx' and ps_[0][2][1] == M(('this',), 'chart_') and len(ps_[0][2][2]) == 1 and canon(ps_[0][2][2][0]) in cell_index_forms(ch, V(pr[0]), V(pr[1]))
            if not okidx and len(ps_) == 1 and ps_[0][2] is not None:
                got_ = ps_[0][2]
                for e in ps_[0][1]:
                    if e[0] == 'decl':
                        got_ = cxx.subst(got_, {V(e[1]): e[2]})
                okidx = len(pr) == 2 and got_[0] == 'idx' and got_[1] == M(('this',), 'chart_') and len(got_[2]) == 1 and canon(got_[2][0]) in cell_index_forms(ch, V(pr[0]), V(pr[1]))
            rep.check(okidx, R, _w(op.line, 'chart::' + acc), 'chart:cell-index', 'chart(row, column) is chart_[row*length + column]',
                      'chart(row, column) indexes something else')
        rep.check(True, R, _w(summary['update'].line, 'chart::update'), 'chart:register',
                  'a cell (row=start, column=len-1) is listed under starting[start] and ending[start+len] by update, exactly when it receives its first item', '')
        _r_chart_tail(m, rep, R, ch, cell)
        return
    # registration by span
    op = cxx.method(ch, 'operator()')
    pr = [p.name for p in cxx.params_of(op)]
    env = cxx.Env(op)
    cv = None
    for d in op.find('VarDecl'):
        i = env.init_of(d)
        ti_ = term(i, env) if i is not None else None
        if ti_ is not None and ti_[0] == 'idx' and ti_[1] == M(('this',), 'chart_') and len(ti_[2]) == 1 and canon(ti_[2][0]) in cell_index_forms(ch, V(pr[0]), V(pr[1])):
            cv = V(d.name)
    rep.check(cv is not None, R, _w(op.line, 'chart::operator()'), 'chart:cell-index',
              'chart(row, column) is chart_[row*length + column]', 'chart(row, column) indexes something else')
    if cv is not None:
        regs = {}
        for n in op.find('CXXMemberCallExpr'):
            c = strip(n.kids[0])
            if c.name == 'push_back':
                regs[canon(term(c.kids[0], env))] = canon(term(n.kids[1], env))
        start_at, end_at = _registry_forms(ch)
        want = {canon(end_at(ADD(V(pr[0]), V(pr[1]), LIT(1)))): canon(('addr', cv)),
                canon(start_at(V(pr[0]))): canon(('addr', cv))}
        rep.check(regs == want, R, _w(op.line, 'chart::operator()'), 'chart:register',
                  'a cell (row=start, column=len-1) is listed under starting[start] and ending[start+len]',
                  'cell registration is %s' % regs)
    _r_chart_tail(m, rep, R, ch, cell)


def cell_index_forms(ch, row_t, col_t):
    """the spellings of `the cell of span (row, column)` inside chart_[..] that are known to give every span a cell of its
    own: row * length + column (a square table), and -- through a method of the chart that computes it -- the triangular
    numbering row * (2 * length - row + 1) / 2 + column (rows stored one after the other, row r having length - r cells).
    -> set of canonical texts of the index expression"""
    L = M(('this',), 'length_')
    out = {canon(ADD(('bin', '*', row_t, L), col_t))}
    for k in ch.kids:
        if k.kind == 'CXXMethodDecl' and any(c.kind == 'CompoundStmt' for c in k.kids) and len(cxx.params_of(k)) == 2:
            a, b = [p_.name for p_ in cxx.params_of(k)]
            try:
                ps_ = Paths(k).paths
            except AnalysisError:
                continue
            if len(ps_) != 1 or ps_[0][0] or ps_[0][2] is None or [e for e in ps_[0][1] if e[0] != 'decl']:
                continue
            got = ps_[0][2]
            for e in ps_[0][1]:
                got = cxx.subst(got, {V(e[1]): e[2]})

            def uncast(t_):
                if isinstance(t_, tuple) and t_ and t_[0] in ('cast', 'scast') and isinstance(t_[-1], tuple):
                    return uncast(t_[-1])
                return tuple(uncast(x_) if isinstance(x_, tuple) else x_ for x_ in t_) if isinstance(t_, tuple) else t_
            got = uncast(got)
            tri = ADD(('bin', '/', ('bin', '*', V(a), ADD(SUB(('bin', '*', LIT(2), L), V(a)), LIT(1))), LIT(2)), V(b))
            if canon(got) == canon(tri):
                out.add(canon(('mcall', ('this',), k.name, (row_t, col_t))))
    return out


def _registry_forms(ch):
    """where the chart lists the cells that start / end at a position, read off its two accessors: an array member indexed
    by the position (`starting_cells_[i]`), or a field of the i-th element of one array of records (`boundaries_[i].starting`).
    -> (start_at, end_at): functions from an index term to the place term.  The two places must be different ones."""
    forms = []
    for name in ('cells_starting_at', 'cells_ending_at'):
        fn = cxx.method(ch, name)
        p = Paths(fn).paths
        a = cxx.params_of(fn)[0].name
        r = p[0][2] if len(p) == 1 else None
        kind = None
        if r is not None and r[0] == 'idx' and r[1][0] == 'mem' and r[1][1] == ('this',) and tuple(r[2]) == (V(a),):
            kind = ('array', r[1][2], None)
        elif r is not None and r[0] == 'mem' and r[1][0] == 'idx' and r[1][1][0] == 'mem' and r[1][1][1] == ('this',) and tuple(r[1][2]) == (V(a),):
            kind = ('field', r[1][1][2], r[2])
        forms.append(kind)
    if forms[0] is None or forms[1] is None or forms[0] == forms[1]:
        return (lambda i: IDX(M(('this',), 'starting_cells_'), i)), (lambda i: IDX(M(('this',), 'ending_cells_'), i))

    def mk(k):
        if k[0] == 'array':
            return lambda i: IDX(M(('this',), k[1]), i)
        return lambda i: M(IDX(M(('this',), k[1]), i), k[2])
    return mk(forms[0]), mk(forms[1])


def _r_chart_tail(m, rep, R, ch, cell):
    start_at, end_at = _registry_forms(ch)
    for name, form in (('cells_starting_at', start_at), ('cells_ending_at', end_at)):
        fn = cxx.method(ch, name)
        p = Paths(fn).paths
        a = cxx.params_of(fn)[0].name
        ok = len(p) == 1 and p[0][2] is not None and canon(p[0][2]) == canon(form(V(a)))
        rep.check(ok, R, _w(fn.line, 'chart::' + name), 'chart:' + name, '%s(i) returns %s' % (name, canon(form(V('i')))),
                  '%s(i) returns %s' % (name, canon(p[0][2]) if p and p[0][2] else '?'))
    if getattr(m, 'goal_is_list', False):
        return      # finished parses are kept in a standard container: its size() / empty() are the library's
    if getattr(m, 'goal_is_cell', False):
        # finished parses are kept in a bare cell: chart::size() is not what the search loop asks
        csz = cxx.method(cell, 'size')
        p = Paths(csz).paths
        ok = len(p) == 1 and p[0][2] is not None and canon(p[0][2]) == canon(('mcall', M(('this',), 'items'), 'size', ()))
        rep.check(ok, R, _w(csz.line, 'cell::size'), 'cell:size', 'cell.size() is items.size()', 'cell.size() is something else')
        try:
            cem = cxx.method(cell, 'empty')
        except AnalysisError:
            cem = None
        if cem is not None:
            p = Paths(cem).paths
            ok = len(p) == 1 and p[0][2] is not None and canon(p[0][2]) in (canon(('mcall', M(('this',), 'items'), 'empty', ())),
                                                                             canon(('bin', '==', ('mcall', M(('this',), 'items'), 'size', ()), LIT(0))),
                                                                             canon(('bin', '==', ('mcall', ('this',), 'size', ()), LIT(0))))
            rep.check(ok, R, _w(cem.line, 'cell::empty'), 'cell:empty', 'cell.empty() says whether the cell holds no item', 'cell.empty() is something else')
        return
    sz = cxx.method(ch, 'size')
    p = Paths(sz).paths
    got = None
    if len(p) == 1 and p[0][2] is not None:
        got = p[0][2]
        for e in p[0][1]:
            if e[0] == 'decl':
                got = cxx.subst(got, {V(e[1]): e[2]})
    want = ('mcall', IDX(M(('this',), 'chart_'), SUB(M(('this',), 'length_'), LIT(1))), 'size', ())
    full_span = cell_index_forms(ch, LIT(0), SUB(M(('this',), 'length_'), LIT(1))) | {canon(SUB(M(('this',), 'length_'), LIT(1)))}
    if got is not None and canon(got) != canon(want) and got[0] == 'mcall' and got[2] == 'size' and not got[3] and got[1][0] == 'idx' and got[1][1] == M(('this',), 'chart_') \
            and len(got[1][2]) == 1 and canon(got[1][2][0]) in full_span:
        want = got
    rep.check(got is not None and canon(got) == canon(want), R, _w(sz.line, 'chart::size'), 'chart:size',
              'chart.size() is the number of items in the full-span cell (0, length-1)',
              'chart.size() is %s' % (canon(got) if got else '?'))
    csz = cxx.method(cell, 'size')
    p = Paths(csz).paths
    ok = len(p) == 1 and p[0][2] is not None and canon(p[0][2]) == canon(('mcall', M(('this',), 'items'), 'size', ()))
    rep.check(ok, R, _w(csz.line, 'cell::size'), 'cell:size', 'cell.size() is items.size()', 'cell.size() is something else')


def _nonnull_guard(c, pol, E, call):
    """does the guard (c, pol) establish that E (the result of chart.update) is not null?"""
    while c[0] == 'un' and c[1] == '!':
        c, pol = c[2], not pol
    asg = ('bin', '=', E, call)
    if c[0] == 'bin' and c[1] in ('!=', '=='):
        a, b = c[2], c[3]
        if b in (E, asg) and a == LIT(None):
            a, b = b, a
        if a in (E, asg) and b == LIT(None):
            return pol if c[1] == '!=' else not pol
        return False
    if c in (E, asg):
        return pol
    return False


def search_shape(m):
    """-> dict with the skeleton of the search loop (or raises)."""
    env = m.env
    body = cxx.for_parts(m.main_loop)[3]
    top = m.main_pop()
    topv = V(top.name)
    out = {'top': topv, 'body': body}
    fin_if = None
    for st in body.kids:
        if st.kind == 'IfStmt' and canon(term(st.kids[0], env)) == canon(M(topv, 'fin')):
            fin_if = st
    out['fin_if'] = fin_if
    # chart.update assignment
    upd = None
    for n in body.walk():
        t = None
        if n.kind == 'BinaryOperator' and n.op == '=':
            t = (term(n.kids[0], env), term(n.kids[1], env))
        elif n.kind == 'VarDecl' and env.init_of(n) is not None:
            t = (V(n.name), term(env.init_of(n), env))
        if t and t[1][0] == 'mcall' and t[1][1] == V(m.chart) and t[1][2] == 'update':
            upd = (t[0], t[1], n)
    out['update'] = upd
    return out


def r_search_loop(m, rep, R):
    """loop guard, goal collection, expansion only of items the chart accepted, failure status."""
    env = m.env
    sh = search_shape(m)
    topv = sh['top']
    v, lo, cond, step, body = m._loop_header(m.main_loop)
    cfg = V(m.p_config)
    goal_size = ('mcall', V(m.goal), 'size', ())
    ag_size = ('mcall', V(m.agenda), 'size', ())
    cs = sorted(canon(c) for c in conjuncts(cond))
    nonempty = [canon(ag_size), canon(('bin', '>', ag_size, LIT(0))), canon(('bin', '!=', ag_size, LIT(0))),
                canon(('un', '!', ('mcall', V(m.agenda), 'empty', ())))]
    budget = canon(('bin', '<', V(v), M(cfg, 'max_step')))
    more = canon(('bin', '<', goal_size, M(cfg, 'nbest')))
    ok = lo == LIT(0) and step and len(cs) == 3 and budget in cs and more in cs and any(x in cs for x in nonempty)
    rep.check(ok, R, _w(m.main_loop.line), 'search:guard',
              'search runs while steps < max_step and goal.size() < nbest and the agenda is non-empty',
              'search loop guard is %s, counting from %s%s' % (cs, show(lo), ': the first step already counts as %s, so the search gives up one step before the budget is used up -- a sentence whose best parse is completed by the last allowed step is reported as failed' % show(lo) if lo not in (LIT(0),) and budget in cs else ''))
    fin_if = sh['fin_if']
    ok = False
    if fin_if is not None:
        then = fin_if.kids[1]
        calls = [term(n, env) for n in then.find('CXXMemberCallExpr')]
        want = ('mcall', V(m.goal), 'update', (LIT(0), LIT(0), topv))
        stmts = then.kids if then.kind == 'CompoundStmt' else [then]
        if getattr(m, 'goal_is_cell', False):
            # finished parses collected in a bare cell: goal.emplace(top) / goal.insert(top, keep) -- possibly under the
            # chart's own rule "keep every derivation in n-best mode, else the first of a category"
            collected = [c for c in calls if c[0] == 'mcall' and c[1] == V(m.goal) and c[2] in _CELL_STORES + ((_update_delegate(m),) if len(c[3]) == 2 else ())
                         and c[3] and c[3][0] == topv]
            hit = len(collected) == 1
        else:
            hit = any(canon(c) == canon(want) for c in calls)
        ok = hit and stmts and stmts[-1].kind == 'ContinueStmt' \
            and not [s for s in m.sites if fin_if in list(s.node.ancestors())]
    rep.check(ok, R, _w(fin_if.line if fin_if is not None else m.main_loop.line), 'search:goal-collect',
              'a finished item only enters the goal cell (goal.update(0,0,item); continue)',
              'finished items are not routed to the goal cell only')
    upd = sh['update']
    ok = False
    if upd is not None:
        E, call, node = upd
        want = (M(topv, 'start_of_span'), SUB(M(topv, 'span_length'), LIT(1)), topv)
        ok = [canon(a) for a in call[3]] == [canon(a) for a in want]
        if not ok and len(call[3]) == 1 and call[3][0] == topv:
            # update(item): an overload that finds the cell from the item's own span and hands on to update(row, column, item)
            for u1 in [u_ for u_ in cxx.method(m.decls['chart'], 'update', all_=True) if len(cxx.params_of(u_)) == 1]:
                it_ = V(cxx.params_of(u1)[0].name)
                ps1 = Paths(u1).paths
                if len(ps1) == 1 and not [e for e in ps1[0][1] if e[0] != 'decl'] and ps1[0][2] is not None:
                    r1 = ps1[0][2]
                    for e in ps1[0][1]:
                        if e[0] == 'decl':
                            r1 = cxx.subst(r1, {V(e[1]): e[2]})
                    if r1[0] == 'mcall' and r1[1] in (('this',), ('deref', ('this',))) and r1[2] == 'update' and \
                            [canon(a) for a in r1[3]] == [canon(M(it_, 'start_of_span')), canon(SUB(M(it_, 'span_length'), LIT(1))), canon(it_)]:
                        ok = True
                if not ok:
                    # the same with the span named first (`const span covered = span_of(item); return update(covered.start, ..)`):
                    # the return value read with the header's helpers and small records resolved
                    try:
                        env1 = cxx.Env(u1)
                        env1.functions = getattr(m.env, 'functions', {})
                        env1.records = getattr(m.env, 'records', None)
                        rets1 = [r_ for r_ in cxx.body_of(u1).find('ReturnStmt') if r_.kids]
                        if len(rets1) == 1:
                            r1 = term(rets1[0].kids[0], env1)
                            if r1[0] == 'mcall' and r1[1] in (('this',), ('deref', ('this',))) and r1[2] == 'update' and \
                                    [canon(a) for a in r1[3]] == [canon(M(it_, 'start_of_span')), canon(SUB(M(it_, 'span_length'), LIT(1))), canon(it_)]:
                                ok = True
                    except AnalysisError:
                        pass
        rep.check(ok, R, _w(node.line), 'search:update-args',
                  'the popped item is offered to chart cell (start, span_length-1)',
                  'chart.update is called with (%s)' % ', '.join(canon(a) for a in call[3]))
        for s_ in m.sites:
            if s_.kind == 'leaf':
                continue
            g = [c for c in s_.ctx if c[0] == 'if' and _nonnull_guard(c[1], c[2], E, call)]
            pl = unaddr(s_.f['left']) if s_.kind != 'binary' else None
            uses_E = (s_.kind != 'binary' and pl == E) or (s_.kind == 'binary' and E in (unaddr(s_.f['left']), unaddr(s_.f['right'])))
            rep.check(bool(g) and uses_E, R, s_.where(), 'search:expand-guard:%s' % s_.kind,
                      '%s expansion happens only for the entry the chart accepted (update(..) != nullptr) and uses that entry' % s_.kind,
                      '%s expansion is not guarded by a successful chart.update, or does not use its result' % s_.kind)
    else:
        rep.violation(R, _w(m.main_loop.line), 'search:update', 'the popped item is never offered to chart.update')
    # status
    P = Paths(m.ps, env)
    fails = [p for p in P.paths if p[2] is not None and p[2] != LIT(0)]
    succ = [p for p in P.paths if p[2] == LIT(0)]
    empty = {canon(('bin', '==', goal_size, LIT(0))), canon(('mcall', V(m.goal), 'empty', ())), canon(('un', '!', goal_size))}
    ok = (len(fails) == 1 and len(succ) == 1 and len(fails[0][0]) == 1 and fails[0][0][0][1] is True
          and canon(fails[0][0][0][0]) in empty and fails[0][2][0] == 'lit' and fails[0][2][1] not in (0, None, False))
    if not ok and status_mode(m) == 'count':
        # the number of parses delivered is handed back on the one exit: zero exactly when the goal cell is empty (the glue
        # code is judged against this convention, rules_pyx._search_failed)
        ok = True
    rep.check(ok, R, _w(m.ps.line), 'search:status',
              'parse_sentence reports failure (non-zero) exactly when the goal cell is empty',
              'return paths: %s' % [([(canon(c), pol) for c, pol in p[0]], canon(p[2]) if p[2] else None) for p in P.paths])


def status_mode(m):
    """'count' when parse_sentence has a single exit that returns the size of the goal cell (the number of parses handed to
    the finalizer), else 'status' (0 / non-zero)"""
    try:
        P = Paths(m.ps, m.env)
    except AnalysisError:
        return 'status'
    rets = [p for p in P.paths if p[2] is not None]
    goal_size = ('mcall', V(m.goal), 'size', ())
    cell_size = ('mcall', IDX(V(m.goal), LIT(0), LIT(0)), 'size', ())
    if len(rets) == 1 and not rets[0][0] and canon(rets[0][2]) in (canon(goal_size), canon(cell_size)):
        return 'count'
    return 'status'


def r_expansion_unconditional(m, rep, R):
    """every accepted chart entry is expanded: the unary and binary push sites depend on nothing but (a) the popped item
    not being a finished one, (b) the chart having accepted it, (c) for unary steps the span rule, and emptiness / null
    tests of the containers walked.  Any further condition (an `else` of the goal test, a category or score test)
    removes derivations from the search space."""
    sh = search_shape(m)
    topv = sh['top']
    upd = sh['update']
    if upd is None:
        raise AnalysisError('%s: chart.update call of the search loop not found' % 'depccg/parsing.h')
    E, call, _ = upd
    ln = V(m.p_len)
    for s in m.sites:
        if s.kind not in ('unary', 'binary'):
            continue
        Lp = s.f['left']
        extra = []
        for c in s.ctx:
            if c[0] != 'if':
                continue
            cond, pol = c[1], c[2]
            if canon(cond) == canon(M(topv, 'fin')) and pol is False:
                continue
            if _nonnull_guard(cond, pol, E, call):
                continue
            if s.kind == 'unary' and pol is True:
                ds = sorted(canon(x) for x in disjuncts(cond))
                if ds in (sorted([canon(('bin', '==', ln, LIT(1))), canon(('bin', '!=', M(Lp, 'span_length'), ln))]),
                          [canon(('bin', '!=', M(Lp, 'span_length'), ln))], [canon(('bin', '<', M(Lp, 'span_length'), ln))]):
                    continue
            txt = canon(cond)
            if 'nullptr' in txt or '.empty()' in txt or '.size()' in txt or txt.startswith(('cell', '(cell', '!cell')):
                continue        # walking a container: nothing to expand with
            extra.append('%s is %s' % (txt, 'true' if pol else 'false'))
        rep.check(not extra, R, s.where(), 'search:expansion-unconditional:%s:%d' % (s.kind, m.sites.index(s)),
                  '%s expansion depends only on the item being accepted by the chart%s' % (s.kind, ' and the span rule' if s.kind == 'unary' else ''),
                  '%s expansion happens only when %s: accepted entries that fail this are never expanded and their derivations are lost'
                  % (s.kind, ' and '.join(extra)))


def r_backpointers(m, rep, R):
    """fields (cat,left,right,start,len) of binary/unary/goal pushes; adjacency of combined items."""
    r_item_methods(m, rep, R)
    for s in m.by_kind.get('binary', []):
        L, Rr, E, O, rule, other, cell = _binary_roles(m, s)
        rv = V(rule[1])
        want_range = ('deref', ('call', 'rules:binary', (M(L, 'cat'), M(Rr, 'cat'))))
        side = 'expanded-left' if E == L else 'neighbour-left'
        # (the lookup hands out a pointer to the cached results, or a reference to them)
        rep.check(rule[2] is not None and canon(m.rules_call(rule[2])) in (canon(want_range), canon(want_range[1])), R, s.where(), 'binary[%s]:rule-args' % side,
                  'results come from apply_binary_rules(left.cat, right.cat) for the very items stored as left/right',
                  'rule loop ranges over %s, expected %s' % (canon(rule[2]) if rule[2] else '?', canon(want_range)))
        rep.check(other[2] is not None and canon(other[2]) == canon(('deref', V(cell[1]))), R, s.where(),
                  'binary[%s]:neighbour' % side, 'the neighbour item is drawn from the selected cell',
                  'neighbour loop ranges over %s' % (canon(other[2]) if other[2] else '?'))
        if E == L:
            want_cell = ('mcall', V(m.chart), 'cells_starting_at', (ADD(M(E, 'start_of_span'), M(E, 'span_length')),))
            adj = 'right neighbours start where the expanded item ends'
        else:
            want_cell = ('mcall', V(m.chart), 'cells_ending_at', (M(E, 'start_of_span'),))
            adj = 'left neighbours end where the expanded item starts'
        got_cell = expand_methods(cell[2], m) if cell[2] else None
        rep.check(got_cell is not None and canon(got_cell) == canon(want_cell), R, s.where(), 'binary[%s]:adjacent' % side,
                  adj + ' (%s)' % canon(want_cell), 'cell loop ranges over %s, expected %s'
                  % (canon(got_cell) if got_cell else '?', canon(want_cell)))
        f = s.f
        for fld, spec in (('cat', M(rv, 'cat_id')), ('start_of_span', M(L, 'start_of_span')),
                          ('span_length', ADD(M(L, 'span_length'), M(Rr, 'span_length'))), ('fin', LIT(False))):
            rep.check(canon(f[fld]) == canon(spec), R, s.where(), 'binary[%s]:%s' % (side, fld),
                      'binary push %s = %s' % (fld, canon(spec)),
                      'binary push %s is %s, expected %s' % (fld, canon(f[fld]), canon(spec)))
        # left/right are pointers to L / R themselves
        for fld, X in (('left', L), ('right', Rr)):
            ok = f[fld] == X and X == E or f[fld] == ('addr', X) and X == O
            rep.check(ok, R, s.where(), 'binary[%s]:%s' % (side, fld),
                      'binary push %s points to the combined item itself (%s)' % (fld, show(f[fld])),
                      'binary push %s is %s' % (fld, show(f[fld])))
    for s in m.by_kind.get('unary', []):
        f = s.f
        Lp = f['left']
        ranges = [c for c in s.ctx if c[0] == 'range']
        ok = bool(ranges) and ranges[-1][2] is not None and \
            canon(m.rules_call(ranges[-1][2])) in (canon(('deref', ('call', 'rules:unary', (M(Lp, 'cat'),)))), canon(('call', 'rules:unary', (M(Lp, 'cat'),))))
        rep.check(ok, R, s.where(), 'unary:rule-args', 'unary results come from apply_unary_rules(child.cat) of the stored child',
                  'unary loop ranges over %s' % (canon(ranges[-1][2]) if ranges and ranges[-1][2] else '?'))
        rv = V(ranges[-1][1]) if ranges else V('?')
        for fld, spec in (('cat', M(rv, 'cat_id')), ('right', LIT(None)), ('start_of_span', M(Lp, 'start_of_span')),
                          ('span_length', M(Lp, 'span_length')), ('head_id', M(Lp, 'head_id')), ('fin', LIT(False))):
            okf = canon(f[fld]) == canon(spec)
            if not okf and fld == 'fin' and canon(f[fld]) == canon(M(Lp, 'fin')):
                # the flag copied from the child: the child is the chart's copy of the popped item, and popped items that are
                # finished never get here (`if (top.fin) { ..; continue; }`, judged by search:goal-collect)
                try:
                    fi_ = search_shape(m)['fin_if']
                except AnalysisError:
                    fi_ = None
                if fi_ is not None:
                    then_ = fi_.kids[1]
                    stmts_ = then_.kids if then_.kind == 'CompoundStmt' else [then_]
                    okf = bool(stmts_) and stmts_[-1].kind == 'ContinueStmt'
            rep.check(okf, R, s.where(), 'unary:' + fld, 'unary push %s = %s' % (fld, canon(spec)),
                      'unary push %s is %s, expected %s' % (fld, canon(f[fld]), canon(spec)))
    for s in m.by_kind.get('goal', []):
        f = s.f
        Lp = f['left']
        for fld, spec in (('cat', M(Lp, 'cat')), ('right', LIT(None)), ('start_of_span', M(Lp, 'start_of_span')),
                          ('span_length', M(Lp, 'span_length')), ('head_id', M(Lp, 'head_id'))):
            rep.check(canon(f[fld]) == canon(spec), R, s.where(), 'goal:' + fld, 'goal push %s = %s' % (fld, canon(spec)),
                      'goal push %s is %s, expected %s' % (fld, canon(f[fld]), canon(spec)))


def r_guards(m, rep, R, allow_stricter=True):
    """root test on the goal push; no unary step at the full span of a multi-word sentence.  With allow_stricter=False the unary
    guard must also let one-word sentences through (`length == 1 ||`): without that a one-word sentence whose only derivations
    need a unary step is reported as failed although a derivation exists."""
    ln = V(m.p_len)
    for s in m.by_kind.get('goal', []):
        Lp = s.f['left']
        want = sorted([canon(('bin', '==', M(Lp, 'span_length'), ln)),
                       canon(('mcall', V(m.p_roots), 'count', (M(Lp, 'cat'),)))])
        alts = [want,
                sorted([want[0], canon(('bin', '>', ('mcall', V(m.p_roots), 'count', (M(Lp, 'cat'),)), LIT(0)))]),
                sorted([want[0], canon(('bin', '!=', ('mcall', V(m.p_roots), 'count', (M(Lp, 'cat'),)), LIT(0)))])]
        conds = []
        for c in s.ctx:
            if c[0] == 'if' and c[2] is True:
                conds += [canon(x) for x in conjuncts(c[1])]
        ok = any(all(x in conds for x in alt) for alt in alts)
        rep.check(ok, R, s.where(), 'goal:guard', 'goal push requires full span and an allowed root category',
                  'goal push is guarded by %s' % conds)
    for s in m.by_kind.get('unary', []):
        Lp = s.f['left']
        ok = False
        seen = []
        for c in s.ctx:
            if c[0] == 'if' and c[2] is True:
                ds = sorted(canon(x) for x in disjuncts(c[1]))
                seen.append(ds)
                if ds == sorted([canon(('bin', '==', ln, LIT(1))), canon(('bin', '!=', M(Lp, 'span_length'), ln))]):
                    ok = True
                if allow_stricter and (ds == [canon(('bin', '!=', M(Lp, 'span_length'), ln))] or
                                       ds == [canon(('bin', '<', M(Lp, 'span_length'), ln))]):
                    ok = True   # stricter variants still satisfy the property (no unary step at the root of a multi-word sentence)
        rep.check(ok, R, s.where(), 'unary:guard', 'unary expansion requires length == 1 or span_length != length',
                  'unary expansion is guarded by %s%s' % (seen, '' if allow_stricter else ': a one-word sentence gets no unary step, so one whose only derivations need one (N -> NP) is reported as failed'))


def r_heads(m, rep, R):
    """head propagation at the binary sites."""
    for s in m.by_kind.get('binary', []):
        L, Rr, E, O, rule, other, cell = _binary_roles(m, s)
        rv = V(rule[1])
        hil = M(rv, 'head_is_left')
        side = 'expanded-left' if E == L else 'neighbour-left'
        got = s.f['head_id']
        oks = []
        for val, head in ((True, L), (False, Rr)):
            g = simplify_cond(got, {hil: val})
            oks.append(canon(g) == canon(M(head, 'head_id')))
        rep.check(all(oks), R, s.where(), 'binary[%s]:head_id' % side,
                  'new head = (rule.head_is_left ? left : right).head_id with left/right the stored back-pointers',
                  'binary push head_id is %s' % canon(got))


def r_rule_ids(m, rep, R):
    for s in m.sites:
        ranges = [c for c in s.ctx if c[0] == 'range']
        if s.kind == 'binary':
            rv = V(ranges[-1][1])
            spec = M(rv, 'rule_id')
            L, Rr, E, O, rule, other, cell = _binary_roles(m, s)
            key = 'binary[%s]:rule_id' % ('expanded-left' if E == L else 'neighbour-left')
        elif s.kind == 'unary':
            rv = V(ranges[-1][1]) if ranges else V('?')
            spec = M(rv, 'rule_id')
            key = 'unary:rule_id'
        elif s.kind == 'goal':
            spec = M(s.f['left'], 'rule_id')
            key = 'goal:rule_id'
        else:
            continue
        rep.check(canon(s.f['rule_id']) == canon(spec), R, s.where(), key,
                  '%s push rule_id = %s (index of the grammar result that created the node)' % (s.kind, canon(spec)),
                  '%s push rule_id is %s, expected %s' % (s.kind, canon(s.f['rule_id']), canon(spec)))
    # the numbers an item carries keep their full width: a rule id is an index into a result list of any length, positions
    # run up to the sentence length -- a bit-field or a narrower integer type silently wraps them
    narrow = []
    for f_ in [k for k in m.decls['cell_item'].kids if k.kind == 'FieldDecl' and k.name in ('cat', 'start_of_span', 'span_length', 'head_id', 'rule_id')] + \
            [k for k in m.decls['combinator_result'].kids if k.kind == 'FieldDecl' and k.name in ('cat_id', 'rule_id')]:
        width = [c for c in f_.kids if c.kind not in ('Null',) and not c.kind.endswith('Attr')]
        base = (f_.dtype or f_.type or '').replace('const ', '').strip()
        if width or base not in ('unsigned int', 'unsigned', 'unsigned long', 'unsigned long long', 'size_t', 'std::size_t', 'uint32_t', 'uint64_t', 'std::uint32_t', 'std::uint64_t'):
            narrow.append('%s: %s%s' % (f_.name, f_.type, ' (bit-field)' if width else ''))
    rep.check(not narrow, R, _w(m.decls['cell_item'].line, 'cell_item'), 'cell_item:full-width',
              'category, span, head and rule ids of an item are full-width unsigned integers',
              'an item stores %s: larger values wrap around, so a node keeps the category of grammar result i but is handed the label, symbol and head '
              'direction of result i modulo the field width' % ', '.join(narrow))
    # the result record carries the fields the glue fills
    need = ['cat_id', 'rule_id', 'head_is_left', 'op_string', 'op_symbol']
    rep.check(all(x in m.result_fields for x in need), R, _w(m.decls['combinator_result'].line, 'combinator_result'),
              'combinator_result:fields', 'combinator_result has fields %s' % need,
              'combinator_result fields are %s' % m.result_fields)


def _call_op(m, name):
    d = m.locals[name]
    lam = d.find('LambdaExpr')
    ops = [k for k in lam[0].walk() if k.kind == 'CXXMethodDecl' and k.name == 'operator()'] if lam else []
    if not ops:
        raise AnalysisError('%s: lambda %s has no call operator' % (H, name))
    return ops[0]


def r_cache(m, rep, R):
    """both rule lambdas memoise per (x, y) key: the callback is asked only when the key is absent, nothing is erased or
    overwritten, and the stored vector is what is returned.  The two lambdas may share one helper lambda."""
    # nothing in the search (lambdas included) ever removes an entry: the finalizer reads labels and head directions back
    # from the cache by (key, rule id) after the search, for every node of the derivation
    shrink = []
    for n_ in m.ps.walk():
        if n_.kind == 'CXXMemberCallExpr' and n_.kids:
            cal_ = strip(n_.kids[0])
            if cal_.kind == 'MemberExpr' and cal_.name in ('clear', 'erase', 'swap', 'extract', 'rehash_and_clear') and cal_.kids:
                obj_ = term(cal_.kids[0], m.env)
                if obj_ in (V(m.p_cache), ('deref', V(m.p_cache))):
                    shrink.append((n_.line, cal_.name))
        if n_.kind in ('BinaryOperator', 'CXXOperatorCallExpr') and (n_.op == '=' or (n_.kids and strip(n_.kids[0]).ref == 'operator=')):
            tgt_ = n_.kids[0] if n_.kind == 'BinaryOperator' else (n_.kids[1] if len(n_.kids) > 1 else None)
            if tgt_ is not None and term(tgt_, m.env) == ('deref', V(m.p_cache)):
                shrink.append((n_.line, 'assignment'))
    shrink = sorted(set(shrink))
    rep.check(not shrink, R, _w(shrink[0][0] if shrink else m.ps.line), 'cache:never-shrinks',
              'no statement of the search removes entries from the rule cache',
              'the rule cache is emptied / entries are removed during the search (%s): a node built earlier in the same sentence loses the entry its rule id '
              'indexes, and the finalizer reads past the end of an empty result list' % ', '.join('%s at line %s' % (nm_, ln_) for ln_, nm_ in shrink))
    for kind, cbparam in (('binary', m.p_bin), ('unary', m.p_un)):
        if getattr(m, 'lookup_fn', None) is not None and kind not in m.lam:
            # one lookup function that is handed the callback: judged once per kind with its parameters bound
            lf = m.lookup_fn
            name = lf['name']
            fn = lf['node']
            env = cxx.Env(fn)
            pr = lf['params']
            w = _w(fn.line, name)
            core_fn, core_name = fn, name
            bind = {'cb': lf['cb'], 'x': lf['x'], 'y': lf['y']}
            # every use in parse_sentence passes this kind's callback with the matching ids (checked where the results
            # are consumed: the canonical spelling rules:<kind> only arises for the right callback)
            _r_cache_core(m, rep, R, kind, cbparam, core_fn, core_name, bind, cache_term=V(pr[[i for i, p_ in enumerate(cxx.params_of(fn)) if 'cache' in (p_.type or '') or 'unordered_map' in (p_.dtype or '')][0]]) if any('cache' in (p_.type or '') or 'unordered_map' in (p_.dtype or '') for p_ in cxx.params_of(fn)) else V(m.p_cache), scaffold=lf['scaffold'])
            continue
        if getattr(m, 'lookup_obj', None) is not None and kind not in m.lam:
            lo = m.lookup_obj
            # the method that asks this kind's callback: one shared method handed the callback, or one method per kind
            cand = [a for a in lo['asks'] if a['cb'][0] == 'var' or m._members_resolved(a['cb']) == V(cbparam)]
            if len(cand) != 1:
                raise AnalysisError('%s: cannot tell which method of %s asks the %s callback' % (H, lo['class'], kind))
            a = cand[0]
            nm = lambda t_: t_[1] if t_[0] == 'var' else None
            _r_cache_core(m, rep, R, kind, cbparam, a['node'], '%s::%s' % (lo['class'], a['name']), {'cb': nm(a['cb']), 'x': nm(a['x']), 'y': nm(a['y'])},
                          cache_term=M(('this',), lo['cache_member']), scaffold=a['scaffold_member'], cb_term=a['cb'])
            continue
        name = m.lam[kind]
        fn = _call_op(m, name)
        env = cxx.Env(fn)
        pr = [p.name for p in cxx.params_of(fn)]
        w = _w(fn.line, 'parse_sentence::' + name)
        # a thin wrapper around a shared helper lambda?
        P = Paths(fn, env)
        core_fn, core_name, bind = fn, name, None
        if len(P.paths) == 1 and not P.paths[0][1] and P.paths[0][2] is not None:
            r = P.paths[0][2]
            if r[0] == 'idx' and r[1][0] == 'var' and r[1][1] in m.locals and (m.locals[r[1][1]].type or '').startswith('(lambda'):
                core_name = r[1][1]
                core_fn = _call_op(m, core_name)
                cpr = [p.name for p in cxx.params_of(core_fn)]
                args = r[2]
                if len(cpr) == 2 and len(args) == 2:
                    # the shared lookup is handed the key already made:  lookup(callback, key_type(x, y))
                    kt_ = args[1]
                    kargs_ = tuple(kt_[2]) if kt_[0] in ('ctor', 'call') and len(kt_) > 2 else (tuple(kt_[1]) if kt_[0] == 'init' else ())
                    oky_ = len(kargs_) == 2 and kargs_[0] == V(pr[0]) and \
                        (kargs_[1] == V(pr[1]) if kind == 'binary' and len(pr) > 1 else not [x for x in subterms(kargs_[1]) if x[0] in ('var', 'mem', 'call', 'mcall', 'idx')])
                    okw = args[0] == V(cbparam) and oky_
                    rep.check(okw, R, w, 'cache:%s:wrapper' % kind,
                              '%s lambda forwards the %s callback and the key (its own ids%s) to the shared lookup %s' % (kind, kind, '' if kind == 'binary' else ', UINT_MAX', core_name),
                              '%s lambda forwards %s to %s' % (kind, [show(a) for a in args], core_name))
                    if okw:
                        _r_cache_core(m, rep, R, kind, cbparam, core_fn, core_name, {'cb': cpr[0], 'x': None, 'y': None, 'key_param': cpr[1]})
                    continue
                if len(cpr) != 3:
                    raise AnalysisError('%s:%s the shared rule lookup %s takes %d parameters (callback and the two ids expected): not recognised' % (H, core_fn.line, core_name, len(cpr)))
                okw = len(args) == len(cpr) == 3 and args[0] == V(cbparam) and args[1] == V(pr[0]) and \
                    (args[2] == V(pr[1]) if kind == 'binary' else not [x for x in subterms(args[2]) if x[0] in ('var', 'mem', 'call', 'mcall', 'idx')])
                rep.check(okw, R, w, 'cache:%s:wrapper' % kind,
                          '%s lambda forwards (%s callback, its own ids%s) to the shared lookup %s' % (kind, kind, '' if kind == 'binary' else ', UINT_MAX', core_name),
                          '%s lambda forwards %s to %s' % (kind, [show(a) for a in args], core_name))
                bind = {'cb': cpr[0], 'x': cpr[1], 'y': cpr[2]}
            elif r[0] == 'call' and isinstance(r[1], str) and r[1] in getattr(m.env, 'functions', {}):
                # ... or around a helper function of the header that gets cache, scaffold, callback and ids as arguments
                core_name = r[1]
                core_fn = m.env.functions[core_name]
                cpr = [p.name for p in cxx.params_of(core_fn)]
                args = r[2]
                pos = {}
                for i_, a_ in enumerate(args):
                    for role, want_ in (('cb', V(cbparam)), ('x', V(pr[0])), ('cache', V(m.p_cache)), ('scaffold', V(m.p_scaffold))):
                        if a_ == want_ and role not in pos:
                            pos[role] = i_
                rest = [i_ for i_ in range(len(args)) if i_ not in pos.values()]
                oky = len(rest) == 1 and (args[rest[0]] == V(pr[1]) if kind == 'binary' and len(pr) > 1
                                          else not [x for x in subterms(args[rest[0]]) if x[0] in ('var', 'mem', 'call', 'mcall', 'idx')])
                okw = len(args) == len(cpr) and {'cb', 'x', 'cache', 'scaffold'} <= set(pos) and oky
                rep.check(okw, R, w, 'cache:%s:wrapper' % kind,
                          '%s lambda forwards (cache, scaffold, %s callback, its own ids%s) to the shared lookup %s' % (kind, kind, '' if kind == 'binary' else ', UINT_MAX', core_name),
                          '%s lambda forwards %s to %s' % (kind, [show(a) for a in args], core_name))
                if okw:
                    bind = {'cb': cpr[pos['cb']], 'x': cpr[pos['x']], 'y': cpr[rest[0]]}
                    _r_cache_core(m, rep, R, kind, cbparam, core_fn, core_name, bind,
                                  cache_term=V(cpr[pos['cache']]), scaffold=cpr[pos['scaffold']])
                continue
        _r_cache_core(m, rep, R, kind, cbparam, core_fn, core_name, bind)


def _r_cache_core(m, rep, R, kind, cbparam, core_fn, core_name, bind, cache_term=None, scaffold=None, cb_term=None):
    fn2 = core_fn
    env2 = cxx.Env(fn2)
    pr2 = [p.name for p in cxx.params_of(fn2)]
    if bind is None:
        bind = {'cb': None, 'x': pr2[0], 'y': pr2[1] if kind == 'binary' and len(pr2) > 1 else None}
    w2 = _w(fn2.line, 'parse_sentence::' + core_name)
    keyv = None
    key_param = bind.get('key_param') if isinstance(bind, dict) else None
    for v in ([] if key_param else fn2.find('VarDecl')):
        if (v.type or '').replace('const ', '').strip() in ('std::pair<unsigned int, unsigned int>', 'pair<unsigned int, unsigned int>') \
                or (v.dtype or '').replace('const ', '').strip() == 'std::pair<unsigned int, unsigned int>':
            keyv = v
    if keyv is None and not key_param:
        rep.violation(R, w2, 'cache:%s:key' % kind, 'cache key pair not found in lambda %s' % core_name)
        return
    if key_param:
        K = V(key_param)        # (how the key is made from the ids is judged where the wrapper makes it)
    else:
        kt = term(env2.init_of(keyv), env2)
        kargs = kt[2] if kt[0] == 'ctor' else (kt[1] if kt[0] == 'init' else ())
        if bind['y'] is not None:
            okk = [canon(a) for a in kargs] == [canon(V(bind['x'])), canon(V(bind['y']))]
        else:
            okk = len(kargs) == 2 and canon(kargs[0]) == canon(V(bind['x'])) and \
                not [x for x in subterms(kargs[1]) if x[0] in ('var', 'mem', 'call', 'mcall', 'idx')]
        rep.check(okk, R, w2, 'cache:%s:key' % kind, '%s cache key is built from the argument ids in order' % kind,
                  '%s cache key is (%s)' % (kind, ', '.join(canon(a) for a in kargs)))
        K = V(keyv.name)
    cache = cache_term if cache_term is not None else V(m.p_cache)
    # the iterator-based variant: auto it = cache->find(key)
    itv = None
    for v in fn2.find('VarDecl'):
        i = env2.init_of(v)
        if i is not None and canon(term(i, env2)) == canon(('mcall', cache, 'find', (K,))):
            itv = V(v.name)
    absent = {canon(('bin', '==', ('mcall', cache, 'count', (K,)), LIT(0))), canon(('un', '!', ('mcall', cache, 'count', (K,))))}
    if itv is not None:
        absent.add(canon(('bin', '==', itv, ('mcall', cache, 'end', ()))))
    muts = []
    for n in fn2.find('CXXMemberCallExpr'):
        c = strip(n.kids[0])
        if c.kids and term(c.kids[0], env2) == cache and c.name not in ('count', 'at', 'find', 'end', 'cend'):
            muts.append((c.name, n))
    ok = len(muts) == 1 and muts[0][0] in ('emplace', 'insert')
    if ok:
        n = muts[0][1]
        ctx = cxx.context(n, env2)
        ok = any(c[0] == 'if' and c[2] is True and canon(c[1]) in absent for c in ctx)
        args = [term(a, env2) for a in n.kids[1:]]
        ok = ok and len(args) == 2 and args[0] == K
    rep.check(ok, R, w2, 'cache:%s:fill' % kind,
              '%s cache entry is created only when the key is absent and is never overwritten or erased' % kind,
              '%s cache is modified by %s' % (kind, [x[0] for x in muts]))
    P2 = Paths(fn2, env2)
    rets = [p_[2] for p_ in P2.paths]
    good = {canon(('addr', ('mcall', cache, 'at', (K,)))), canon(('mcall', cache, 'at', (K,)))}      # a pointer to the entry, or a reference to it
    if itv is not None:
        good.add(canon(('addr', M(itv, 'second'))))
        good.add(canon(M(itv, 'second')))
    ok = bool(rets) and all(r is not None and canon(r) in good for r in rets)
    rep.check(ok, R, w2, 'cache:%s:return' % kind, '%s lookup returns the stored vector for the key' % kind,
              '%s lookup returns %s' % (kind, [canon(r) if r else None for r in rets]))
    sc = [term(n, env2) for n in fn2.find('CallExpr') if (strip(n.kids[0]).ref or strip(n.kids[0]).name) == (scaffold or m.p_scaffold)]
    want_cb = cb_term if cb_term is not None else (V(bind['cb']) if bind['cb'] else V(cbparam))
    if key_param:
        ok = len(sc) == 1 and len(sc[0][2]) == 4 and sc[0][2][0] == want_cb and sc[0][2][1] == M(K, 'first') and sc[0][2][2] == M(K, 'second')
    else:
        ok = len(sc) == 1 and len(sc[0][2]) == 4 and sc[0][2][0] == want_cb and sc[0][2][1] == V(bind['x'])
        if ok and bind['y'] is not None:
            ok = sc[0][2][2] == V(bind['y'])
    rep.check(ok, R, w2, 'cache:%s:callback' % kind, '%s lookup asks the %s callback with the same ids' % (kind, kind),
              '%s lookup calls scaffold as %s' % (kind, [show(x) for x in sc]))
    # what the callback filled in is what is stored: the result vector is touched by nothing between the callback
    # and the cache (positions in it are the rule ids the finalizer indexes with)
    sc_nodes = [n for n in fn2.find('CallExpr') if (strip(n.kids[0]).ref or strip(n.kids[0]).name) == (scaffold or m.p_scaffold)]
    if len(sc_nodes) == 1 and len(sc_nodes[0].kids) == 5:
        res_refs = [x for x in sc_nodes[0].kids[4].walk() if x.kind == 'DeclRefExpr' and x.ref]
        if res_refs:
            rv = res_refs[0].ref
            inside = set()
            for holder in sc_nodes + [mm[1] for mm in muts]:
                for x in holder.walk():
                    inside.add(id(x))
            other = [x for x in fn2.find('DeclRefExpr') if x.ref == rv and id(x) not in inside]
            rep.check(not other, R, w2, 'cache:%s:stored-unchanged' % kind,
                      'the vector filled by the %s callback goes into the cache untouched (rule ids are positions in it)' % kind,
                      'the result vector `%s` is also used at line(s) %s between the callback and the cache: entries may be dropped or moved, and rule ids no longer index the grammar\'s result list'
                      % (rv, sorted({x.line for x in other if x.line})))


def r_items_immutable(m, rep, R):
    """chart / agenda items are immutable records: every field of a cell_item comes from one initialiser list and is never
    assigned afterwards (a field-wise update would let score, head and rule index of one item come from different grammar
    results, and would change entries that parents already point at)."""
    fields = set(m.item_fields)
    n = 0
    scopes = [('parse_sentence', m.ps), ('chart', m.decls['chart'])] + ([('operator<', m.agenda_comparator()[0])] if m.agenda_comparator()[0] is not None else [])
    for name, scope in scopes:
        for a in scope.walk():
            tgt = None
            if a.kind in ('BinaryOperator', 'CompoundAssignOperator') and a.op and (a.op == '=' or (a.op.endswith('=') and a.op not in ('==', '!=', '<=', '>='))):
                tgt = strip(a.kids[0])
            elif a.kind == 'UnaryOperator' and a.op in ('++', '--'):
                tgt = strip(a.kids[0])
            if tgt is None or tgt.kind != 'MemberExpr' or tgt.name not in fields:
                continue
            base = strip(tgt.kids[0]) if tgt.kids else None
            btype = (base.type or '') if base is not None else ''
            if 'cell_item' not in btype:
                continue
            n += 1
            rep.violation(R, _w(a.line, name), 'item-immutable:%s' % tgt.name,
                          'field `%s` of a chart/agenda item is assigned after the item was built (%s): items are no longer the record of one grammar result'
                          % (tgt.name, show(term(a, m.env))[:90]))
    for node, arg in m.opaque_pushes:
        rep.violation(R, _w(node.line), 'item-immutable:staged-push',
                      'an item reaches the agenda through a staging object (%s) instead of an initialiser list built at the push' % show(arg)[:40]) \
            if n else None
    if n == 0:
        rep.ok(R, _w(m.ps.line), 'no field of a cell_item is assigned after construction (items are immutable records)')


def r_ids_not_ordered(m, rep, R):
    """category ids of derived categories depend on discovery order (history); they may be compared for equality and
    hashed, but never ordered: the search order must depend on scores only."""
    bad = []
    scopes = [('parse_sentence', m.ps, m.env), ('chart', m.decls['chart'], None)] + ([('operator<', m.agenda_comparator()[0], None)] if m.agenda_comparator()[0] is not None else [])
    n = 0
    for name, scope, env in scopes:
        e = env or cxx.Env(scope)
        for a in scope.walk():
            if a.kind == 'BinaryOperator' and a.op in ('<', '>', '<=', '>='):
                n += 1
                t = term(a, e)
                for side in (t[2], t[3]):
                    # the id itself (possibly in arithmetic) is an operand; ids inside calls (count(id) > 0) are lookups
                    def direct(x):
                        if x[0] == 'mem' and x[2] in ('cat', 'cat_id'):
                            return True
                        if x[0] == 'bin' and x[1] in ('+', '-', '*'):
                            return direct(x[2]) or direct(x[3])
                        if x[0] == 'cond':
                            return direct(x[2]) or direct(x[3])
                        return False
                    if direct(side):
                        bad.append((a.line, name, show(t)[:80]))
    for line, name, txt in bad:
        rep.violation(R, _w(line, name), 'ids-ordered:' + name, 'a category id takes part in an ordering comparison (%s): ids of derived categories depend on what was parsed before' % txt)
    if not bad:
        rep.ok(R, _w(m.ps.line), 'category ids are never ordered (%d ordering comparisons inspected): search order depends on scores only' % n)


def _descending_sort(m, sort_node, senv, scope, target):
    """is `sort_node` (<list>.sort(cmp)) a sort of `target` by descending score?  The comparator is a lambda written at
    the call (or bound to a local of `scope`), or a function object of the header; what it decides is read off its
    body over the orderings of the two items' scores.  -> (ok, detail)"""
    from . import cmpeval
    t = term(sort_node, senv)
    if not t[3]:
        return False, 'sort() without a comparator: ascending by operator<, the worst parse first'
    if len(t[3]) != 1:
        return False, 'sort called with %d arguments' % len(t[3])
    cmp_fn = None
    detail = 'no comparator'
    lam = sort_node.find('LambdaExpr') or scope.find('LambdaExpr')
    a_ = t[3][0]
    while a_[0] == 'ctor' and len(a_[2]) == 1 and a_[2][0][0] == 'ctor':
        a_ = a_[2][0]          # copies of the temporary
    if a_[0] == 'ctor' and not a_[2]:
        # a function object: items.sort(higher_score())
        rname = (a_[1] or '').replace('parsing::', '').replace('struct ', '').replace('class ', '').replace('const ', '').strip()
        rec = m.decls.get(rname)
        if rec is not None and rec.kind == 'CXXRecordDecl':
            ops = [k for k in rec.kids if k.kind == 'CXXMethodDecl' and k.name == 'operator()' and any(c.kind == 'CompoundStmt' for c in k.kids)]
            cmp_fn = ops[0] if len(ops) == 1 else None
            detail = 'comparator %s' % rname
    elif len(lam) == 1:
        cmp_fn = [k for k in lam[0].walk() if k.kind == 'CXXMethodDecl' and k.name == 'operator()'][0]
        detail = 'comparator lambda'
    if cmp_fn is None:
        return False, detail
    score = lambda v, s_: v[(s_, 'in_score')] + v[(s_, 'out_score')]

    def spec(v):
        l_, r_ = score(v, 'L'), score(v, 'R')
        return None if l_ == r_ else l_ > r_
    okc, why = cmpeval.judge_items(cmp_fn, spec)
    return okc and t[1] == target, '%s on %s: %s' % (detail, show(t[1]), why)


def r_nbest(m, rep, R):
    """sorted goal cell, finalizer over it in order with a fresh token counter, charts in n-best mode iff nbest > 1."""
    env = m.env
    cfg = V(m.p_config)
    for name in (m.chart, m.goal):
        a = m.chart_args[name]
        if name == m.goal and getattr(m, 'goal_is_cell', False):
            # a bare cell keeps what it is given: duplicates are kept when every finished item is put in, or when the
            # insertion is conditioned / parameterised by nbest > 1 (and the first-of-a-category rule otherwise)
            keep = canon(('bin', '>', M(cfg, 'nbest'), LIT(1)))
            ins = [term(n, env) for n in m.main_loop.find('CXXMemberCallExpr')]
            ins = [t for t in ins if t[0] == 'mcall' and t[1] == V(m.goal) and t[2] in _CELL_STORES + ((_update_delegate(m),) if len(t[3]) == 2 else ())]
            okc = len(ins) == 1
            if okc and len(ins[0][3]) == 2:
                okc = canon(ins[0][3][1]) == keep
            elif okc:
                node = [n for n in m.main_loop.find('CXXMemberCallExpr') if term(n, env) == ins[0]][0]
                conds = [c for c in cxx.context(node, env, stop=m.body) if c[0] == 'if' and c[3] is not None and any(
                    x == V(m.goal) for x in subterms(c[1]))]
                for c in conds:
                    ds = {canon(x) for x in disjuncts(c[1])} if c[2] is True else set()
                    okc = okc and c[2] is True and keep in ds and len(ds) == 2 and any('contains' in d_ and '!' in d_ for d_ in ds)
            rep.check(okc, R, _w(m.locals[name].line), 'nbest:mode:goal', '%s keeps duplicates exactly when config.nbest > 1 (or keeps every finished item)' % name,
                      'finished items are put into %s by %s' % (name, [show(t) for t in ins]))
            continue
        ok = a is not None and len(a) == 2 and canon(a[1]) == canon(('bin', '>', M(cfg, 'nbest'), LIT(1)))
        rep.check(ok, R, _w(m.locals[name].line), 'nbest:mode:' + ('chart' if name == m.chart else 'goal'),
                  '%s keeps duplicates exactly when config.nbest > 1' % name,
                  '%s is constructed with %s' % (name, [canon(x) for x in (a or ())]))
    # after the loop: cell = goal(0,0); cell.sort(); for item in cell: token_id = 0; finalizer(&item, &token_id, cache, args)
    idx = m.top.index(m.main_loop)
    tail = m.top[idx + 1:]
    goal_cell = V(m.goal) if getattr(m, 'goal_is_cell', False) else IDX(V(m.goal), LIT(0), LIT(0))
    cell_names = {canon(goal_cell)}
    for st in tail:
        for d in st.find('VarDecl'):
            i = env.init_of(d)
            if i is not None and canon(term(i, env)) == canon(goal_cell):
                cell_names.add(canon(V(d.name)))
    sort_i = fr_i = None
    fr = None
    sort_node = None
    sort_env = sort_scope = sort_obj = None
    for i, st in enumerate(tail):
        if strip(st).kind == 'CXXMemberCallExpr':
            t = term(st, env)
            if t[0] == 'mcall' and t[2] == 'sort' and (not t[3] or getattr(m, 'goal_is_list', False)) and canon(t[1]) in cell_names:
                sort_i = i
                sort_node = strip(st)
        if strip(st).kind == 'CallExpr' and getattr(m, 'goal_is_list', False) and sort_i is None:
            # the sort handed to a helper of the header whose whole body is `list.sort(<comparator>)`
            t = term(st, env)
            hf = getattr(env, 'functions', {}).get(t[1]) if t[0] == 'call' and isinstance(t[1], str) else None
            if hf is not None and len(t[2]) == 1 and canon(t[2][0]) in cell_names and len(cxx.params_of(hf)) == 1:
                hb = cxx.body_of(hf)
                hs = [strip(x) for x in hb.kids]
                if len(hs) == 1 and hs[0].kind == 'CXXMemberCallExpr' and strip(hs[0].kids[0]).name == 'sort':
                    henv = cxx.Env(hf)
                    ht = term(hs[0], henv)
                    if ht[0] == 'mcall' and ht[1] == V(cxx.params_of(hf)[0].name):
                        sort_i = i
                        sort_node = hs[0]
                        sort_env, sort_scope, sort_obj = henv, hf, V(cxx.params_of(hf)[0].name)
        if st.kind == 'CXXForRangeStmt':
            fr_i, fr = i, st
    rep.check(sort_i is not None and fr_i is not None and sort_i < fr_i, R, _w(tail[0].line if tail else m.main_loop.line), 'nbest:sort-before-output',
              'the goal cell goal(0,0) is sorted before the finalizer loop', 'goal cell is not sorted before results are emitted')
    if fr is not None:
        calls = [n for n in fr.find('CallExpr') if strip(n.kids[0]).ref == m.p_fin]
        ok = False
        detail = 'finalizer not called'
        if len(calls) == 1:
            ctx = cxx.context(calls[0], env, stop=m.body)
            rng = [c for c in ctx if c[0] == 'range']
            t = term(calls[0], env)
            args = t[2]
            ok = (len(rng) == 1 and rng[0][2] is not None and canon(rng[0][2]) in cell_names
                  and len(args) == 4 and canon(args[0]) == canon(('addr', V(rng[0][1])))
                  and args[2] in (V(m.p_cache), ('addr', V(m.p_cache))) and args[3] == V(m.p_finargs) and args[1][0] == 'addr')
            detail = 'finalizer(%s) over %s' % (', '.join(canon(a) for a in args), canon(rng[0][2]) if rng and rng[0][2] else '?')
            if ok:
                cnt = args[1][1]
                decl = [d for d in fr.kids[-1].find('VarDecl') if d.name == cnt[1]]
                ok = len(decl) == 1 and env.init_of(decl[0]) is not None and term(env.init_of(decl[0]), env) == LIT(0)
                if not ok:
                    detail += '; the token counter is not a fresh 0 per goal item'
        rep.check(ok, R, _w(fr.line), 'nbest:finalize',
                  'every goal item is finalised in list order with a fresh token counter (%s)' % detail, detail)
    # the order of the output: the goal list is sorted by descending score
    cell = [k for k in m.decls['chart'].walk() if k.kind == 'CXXRecordDecl' and k.name == 'cell' and cxx.fields_of(k)][0]
    if getattr(m, 'goal_is_list', False):
        # a plain list of finished items, sorted where it is used:  finished.sort(<comparator>)
        ok, detail, line = False, 'the list of finished items is not sorted', m.main_loop.line
        if sort_node is not None:
            ok, detail = _descending_sort(m, sort_node, sort_env or env, sort_scope or m.ps, sort_obj or V(m.goal))
            line = sort_node.line
        rep.check(ok, R, _w(line), 'nbest:sort-order', 'the finished items are ordered by descending score (%s)' % detail, 'sort of the finished items: ' + detail)
    else:
        srt = cxx.method(cell, 'sort')
        sort_nodes = [n for n in srt.find('CXXMemberCallExpr') if strip(n.kids[0]).name == 'sort']
        ok, detail = False, 'cell::sort() sorts %d times' % len(sort_nodes)
        if len(sort_nodes) == 1:
            ok, detail = _descending_sort(m, sort_nodes[0], cxx.Env(srt), srt, M(('this',), 'items'))
        rep.check(ok, R, _w(srt.line, 'cell::sort'), 'nbest:sort-order',
                  'cell.sort() orders items by descending score (%s)' % detail, 'cell.sort(): ' + detail)
    # begin/end iterate the item list
    for nm in ('begin', 'end'):
        fn = cxx.method(cell, nm)
        p = Paths(fn).paths
        ok = len(p) == 1 and p[0][2] is not None and canon(p[0][2]) == canon(('mcall', M(('this',), 'items'), nm, ()))
        rep.check(ok, R, _w(fn.line, 'cell::' + nm), 'nbest:iter:' + nm, 'cell.%s() is items.%s()' % (nm, nm),
                  'cell.%s() is something else' % nm)


# -- C16 ---------------------------------------------------------------------

LOG, PROB, POLY = 'LOG', 'PROB', 'ANY'


def r_beam(m, rep, R):
    env = m.env
    cfg = V(m.p_config)
    leafs = m.by_kind.get('leaf', [])
    if len(leafs) != 1:
        raise AnalysisError('%s: expected one leaf push site, found %d' % (H, len(leafs)))
    s = leafs[0]
    tv = _leaf_token(m, s)
    cand_loop = None
    for p in s.node.ancestors():
        if p.kind == 'ForStmt' and p is not m.leaf_loop:
            cand_loop = p
            break
    if cand_loop is None:
        rep.violation(R, s.where(), 'beam:loop', 'leaf push is not inside a per-word candidate loop')
        return
    # top() of the candidate queues must be the best remaining candidate: default (max-heap) ordering on (score, id)
    st_ = getattr(m, 'scored_type', '')
    maxheap = 'std::greater' not in st_ and ('std::less' in st_ or st_.count('priority_queue<') == 1 and ', ' not in st_.split('priority_queue<', 1)[1].split('std::pair', 2)[-1].split('>>')[0])
    rep.check('std::greater' not in st_, R, s.where(), 'beam:queue-order',
              'the per-word candidate queues are max-heaps: top() is the best remaining tag',
              'the per-word candidate queues order with std::greater: top() is the weakest candidate, so the beta threshold and the best-tag estimate are taken from the wrong end')
    v, lo, cond, step, body = m._loop_header(cand_loop)
    q = IDX(V(m.scored), tv)
    cs = [canon(c) for c in conjuncts(cond)]
    bound = canon(('bin', '<', V(v), M(cfg, 'pruning_size')))
    # `for (k = 0; k < W; k++)` with W = min(pruning_size, queue size) fixed before the loop: the same number of rounds,
    # because every round pops exactly one entry (checked below)
    fixed_width = False
    cc = conjuncts(cond)
    if len(cc) == 1 and cc[0][0] == 'bin' and cc[0][1] == '<' and cc[0][2] == V(v):
        wt = cc[0][3]
        if wt[0] == 'var':
            for d in cxx.for_parts(m.leaf_loop)[3].find('VarDecl'):
                if d.name == wt[1] and d not in list(cand_loop.walk()) and env.init_of(d) is not None and d.id not in env.mutated:
                    wt = term(env.init_of(d), env)
        if wt[0] == 'call' and str(wt[1]).split('::')[-1].split('<')[0] == 'min' and len(wt[2]) == 2:
            args_ = {canon(a) for a in wt[2]}
            if args_ == {canon(M(cfg, 'pruning_size')), canon(('mcall', q, 'size', ()))}:
                fixed_width = True
                cs = [bound, canon(('mcall', q, 'size', ()))]
    rep.check(lo == LIT(0) and step and bound in cs, R, _w(cand_loop.line), 'beam:pruning-size',
              'at most pruning_size candidates are taken per word (%s from 0, %s)' % (v, bound),
              'candidate loop header is (%s=%s; %s)' % (v, show(lo), cs))
    nonempty = {canon(('mcall', q, 'size', ())), canon(('bin', '>', ('mcall', q, 'size', ()), LIT(0))),
                canon(('un', '!', ('mcall', q, 'empty', ())))}
    rep.check(any(c in nonempty for c in cs), R, _w(cand_loop.line), 'beam:nonempty',
              'the loop stops when the word\'s queue is exhausted', 'candidate loop does not test the queue: %s' % cs)
    # exactly one top() then one pop() per iteration, before the push
    stmts = list(body.kids)
    tops = [n for n in body.find('CXXMemberCallExpr') if strip(n.kids[0]).name == 'top' and canon(term(strip(n.kids[0]).kids[0], env)) == canon(q)]
    pops = [n for n in body.find('CXXMemberCallExpr') if strip(n.kids[0]).name == 'pop' and canon(term(strip(n.kids[0]).kids[0], env)) == canon(q)]
    # every read of top() happens in the statements before the pop (one statement reading the pair, or one per field)
    pop_i = [i for i, st in enumerate(stmts) if pops and (st is pops[0] or pops[0] in list(st.walk()))]
    ok = len(pops) == 1 and 1 <= len(tops) <= 2 and bool(pop_i) and pop_i[0] >= 1 and stmts[pop_i[0]] is pops[0] and all(
        any(t_ in list(st.walk()) for st in stmts[:pop_i[0]]) for t_ in tops) and all(
        st.kind == 'DeclStmt' or any(t_ in list(st.walk()) for t_ in tops) for st in stmts[:pop_i[0]])
    if not ok and len(pops) == 1 and 1 <= len(tops) <= 2 and bool(pop_i) and stmts[pop_i[0]] is pops[0]:
        # the candidate is looked at first and taken off the queue only once it is known to be inside the beam (the one that
        # ends the beam stays in the queue): the same candidates in the same order -- provided nothing reads the word's
        # queue once its candidate loop is over, and nothing between the read and the pop touches the queue or can leave
        # the round without ending the loop
        between = stmts[:pop_i[0]]
        tops_first = all(any(t_ in list(st.walk()) for st in between) for t_ in tops)
        qname = m.scored
        skips = [x for st in between for x in st.walk() if x.kind in ('ContinueStmt', 'ReturnStmt', 'GotoStmt')]
        after_loop = []
        leaf_body = cxx.for_parts(m.leaf_loop)[3]
        seen_loop = False
        for st in leaf_body.kids:
            if st is cand_loop or cand_loop in list(st.walk()):
                seen_loop = True
                continue
            if seen_loop:
                after_loop += [x for x in st.walk() if x.kind == 'DeclRefExpr' and x.ref == qname]
        idx_top = {id(s_): i_ for i_, s_ in enumerate(m.top)}
        for st in m.top[idx_top[id(m.leaf_loop)] + 1:]:
            after_loop += [x for x in st.walk() if x.kind == 'DeclRefExpr' and x.ref == qname]
        reads_of_top = [x for st in between for x in st.walk() if x.kind == 'CXXMemberCallExpr' and strip(x.kids[0]).name in ('top', 'pop', 'push', 'emplace', 'size', 'empty')
                        and canon(term(strip(x.kids[0]).kids[0], env)) == canon(q) and x not in tops]
        ok = tops_first and not skips and not after_loop and not reads_of_top
    rep.check(ok, R, _w(body.line), 'beam:one-pop', 'each iteration reads the best remaining candidate and removes it (top(); pop())',
              'candidate loop body does not start with top(); pop() on the word\'s queue')
    sc = _leaf_candidate(m, s)
    if sc is None:
        rep.violation(R, s.where(), 'beam:candidate', 'candidate variable not found')
        return
    # the keep test: the one condition inside the candidate loop under which the leaf is pushed; a candidate that fails
    # it ends the loop (else-branch break, or a guard clause `if (!keep) break;` before the push)
    ifs = [c for c in s.ctx if c[0] == 'if' and c[3] in list(body.walk())]
    if len(ifs) != 1:
        rep.violation(R, s.where(), 'beam:keep-test', 'the leaf push is not guarded by exactly one keep-test inside the candidate loop')
        return
    keep, pol, ifnode = ifs[0][1], ifs[0][2], ifs[0][3]
    while keep[0] == 'un' and keep[1] == '!':
        keep, pol = keep[2], not pol
    if not pol:
        if keep[0] == 'bin' and keep[1] in ('<', '>', '<=', '>='):
            # !(a <= b) is a > b etc. (identical for every pair of floats the scores can take here except NaN)
            keep = ('bin', {'<': '>=', '>': '<=', '<=': '>', '>=': '<'}[keep[1]], keep[2], keep[3])
        else:
            rep.violation(R, s.where(), 'beam:keep-test', 'the leaf push happens when the keep-test fails')
            return
    kids = ifnode.kids
    if ifs[0][2] is True:
        els = kids[2] if len(kids) > 2 else None
        stops = els is not None and any(k.kind == 'BreakStmt' for k in els.walk()) and not els.find('CXXMemberCallExpr')
    else:
        stops = any(k.kind == 'BreakStmt' for k in kids[1].walk()) and not kids[1].find('CXXMemberCallExpr')
    rep.check(stops, R, _w(ifnode.line), 'beam:early-stop', 'the first candidate failing the test ends the word\'s loop (break)',
              'a failing candidate does not end the loop')
    # resolve the threshold variable (kept as a variable by the inliner because it reads top())
    score = M(sc.TOP, 'first')
    keep = sc.resolve(keep)
    thr_defs = {}
    tok_body = cxx.for_parts(m.leaf_loop)[3]
    for d in tok_body.find('VarDecl'):
        if d in list(cand_loop.walk()):
            continue
        i = env.init_of(d)
        if i is not None and (d.type or '') in ('float', 'double', 'const float'):
            thr_defs[d.name] = (term(i, env), d)
    best_forms = {canon(m.best_tag_term[1] and M(('mcall', q, 'top', ()), 'first')): 'top-before-pop',
                  canon(IDX(V(m.BT), tv)) if m.BT else '': 'BT[t]'}

    def resolve(t):
        mp = {}
        for name, (val, d) in thr_defs.items():
            if d.id not in env.mutated:
                mp[V(name)] = val
        return cxx.subst(t, mp)
    keep_r = resolve(keep)
    use_beta = M(cfg, 'use_beta')
    beta = M(cfg, 'beta')

    def dom(t):
        """LOG / PROB / POLY or raise TypeError(msg)"""
        c = canon(t)
        if c in best_forms and c:
            return LOG
        if c == canon(score):
            return LOG
        if c == canon(beta):
            return PROB
        k = t[0]
        if k == 'call' and t[1] in ('exp', 'expf') and len(t[2]) == 1:
            d = dom(t[2][0])
            if d == PROB:
                raise TypeError('exp of a probability: %s' % canon(t))
            return PROB
        if k == 'call' and t[1] in ('log', 'logf') and len(t[2]) == 1:
            d = dom(t[2][0])
            if d == LOG:
                raise TypeError('log of a log-probability: %s' % canon(t))
            return LOG
        if k == 'call' and t[1] == 'lowest':
            return POLY
        if k == 'lit':
            return POLY
        if k == 'bin' and t[1] in ('+', '-'):
            a, b = dom(t[2]), dom(t[3])
            if PROB in (a, b):
                raise TypeError('sum/difference involving a probability: %s' % canon(t))
            return LOG
        if k == 'bin' and t[1] in ('*', '/'):
            a, b = dom(t[2]), dom(t[3])
            if LOG in (a, b):
                raise TypeError('product involving a log-probability: %s' % canon(t))
            return PROB
        if k == 'cond':
            a, b = dom(t[2]), dom(t[3])
            if {a, b} == {LOG, PROB}:
                raise TypeError('branches in different domains: %s' % canon(t))
            return a if a != POLY else b
        raise TypeError('unrecognised score expression: %s' % canon(t))

    best_here = None
    typed = True
    msg = ''
    try:
        if keep_r[0] != 'bin' or keep_r[1] not in ('>', '>=', '<', '<='):
            raise TypeError('keep-test is not a comparison: %s' % canon(keep_r))
        a, b = dom(keep_r[2]), dom(keep_r[3])
        if {a, b} == {LOG, PROB}:
            raise TypeError('comparison across domains (%s vs %s): %s' % (a, b, canon(keep_r)))
    except TypeError as e:
        typed, msg = False, str(e)
    rep.check(typed, R, _w(ifnode.line), 'beam:threshold-domain',
              'the keep-test compares like with like (log-probabilities with log-probabilities or probabilities with probabilities): %s' % canon(keep_r),
              'beam threshold is ill-typed: ' + msg)
    # normal forms
    lhs, rhs, op = keep_r[2], keep_r[3], keep_r[1]
    if op in ('<', '<='):
        lhs, rhs = rhs, lhs
    bests = [M(('mcall', q, 'top', ()), 'first')] + ([IDX(V(m.BT), tv)] if m.BT else [])
    nf = False
    prob_form = False
    for b in bests:
        on_forms = [(('call', 'exp', (score,)), ('bin', '*', ('call', 'exp', (b,)), beta)),
                    (score, ADD(b, ('call', 'log', (beta,))))]
        for i_form, (l_, r_on) in enumerate(on_forms):
            for low in (('call', 'lowest', ()),):
                want_r = ('cond', use_beta, r_on, low)
                if canon(lhs) == canon(l_) and canon(rhs) == canon(want_r):
                    nf = True
                    prob_form = prob_form or i_form == 0
    if nf and prob_form:
        # in the probability domain both sides underflow to 0 for very low scores (rows flattened by the category
        # dictionary, a best tag below about -92): only the strict comparison still rejects 0 against 0
        rep.check(op in ('>', '<'), R, _w(ifnode.line), 'beam:threshold-strict',
                  'probabilities are compared strictly, so a candidate whose probability underflows to 0 is never kept against a threshold that underflowed to 0',
                  'keep-test %s admits equality: when exp(best) * beta underflows to 0 every candidate with probability 0 (e.g. one flattened to -1e33 by the '
                  'category dictionary) passes 0 >= 0 although the filter is on' % canon(keep_r))
    rep.check(nf, R, _w(ifnode.line), 'beam:threshold-form',
              'a candidate is kept iff p(tag) > beta * p(best tag of the word) when the filter is on, always when it is off',
              'keep-test %s is not one of the accepted forms exp(s) > (use_beta ? exp(best)*beta : lowest) / s > (use_beta ? best+log(beta) : lowest)' % canon(keep_r))
    # a threshold reading top() must be computed before the candidate loop pops anything
    for name, (val, d) in thr_defs.items():
        if V(name) in set(subterms(keep)) and any(x[0] == 'mcall' and x[2] == 'top' for x in subterms(val)):
            before = d.line < cand_loop.line and d not in list(cand_loop.walk())
            rep.check(before, R, _w(d.line), 'beam:best-before-pop',
                      'the best tag of the word is read before any candidate is popped',
                      'threshold reads top() after candidates were popped')


# ---------------------------------------------------------------------------------------------------------------------
# chart::update judged on its paths with the cell's own methods read in place
# ---------------------------------------------------------------------------------------------------------------------
_CELL = V('<cell>')


def _nested_cell(ch):
    for k in ch.walk():
        if k.kind == 'CXXRecordDecl' and k.name == 'cell' and cxx.fields_of(k):
            return k
    return None


def chart_update_summary(m):
    """-> dict(ok, why, table, registers_in_update, accessor) for chart::update(row, column, item) with every call of a
    method of the cell (contains / emplace / add / insert_if_new_category / empty / size ..) replaced by that method's own
    paths.  The judgement is by outcome: for every combination of (n-best mode, category already in the cell, cell still
    empty) exactly one path applies; it hands back nullptr and stores nothing exactly when !nbest and the category is
    there, otherwise it stores the item once, hands back the address of the stored copy and -- in 1-best mode -- has the
    category recorded; if update itself lists the cell under its span, it does so exactly when the cell was empty."""
    ch = m.decls['chart']
    cell = _nested_cell(ch)
    if cell is None:
        return {'ok': False, 'why': 'chart::cell not found'}
    upds = [u for u in cxx.method(ch, 'update', all_=True) if len(cxx.params_of(u)) == 3]
    if len(upds) != 1:
        return {'ok': False, 'why': 'chart::update(row, column, item) not found'}
    u = upds[0]
    pr = [p.name for p in cxx.params_of(u)]
    ROW, COL, ITEM = V(pr[0]), V(pr[1]), V(pr[2])
    CAT = M(ITEM, 'cat')
    chart_methods = {k.name: k for k in ch.kids if k.kind == 'CXXMethodDecl' and any(c.kind == 'CompoundStmt' for c in k.kids)}
    cell_methods = {k.name: k for k in cell.kids if k.kind == 'CXXMethodDecl' and any(c.kind == 'CompoundStmt' for c in k.kids)}
    flag = None
    for ctor in [k for k in ch.kids if k.kind == 'CXXConstructorDecl' and len(cxx.params_of(k)) == 2]:
        p2 = cxx.params_of(ctor)[1].name
        for init in ctor.kids:
            if init.kind == 'CXXCtorInitializer' and [x.ref for x in init.walk() if x.kind == 'DeclRefExpr'] == [p2]:
                flag = init.name
    if flag is None:
        return {'ok': False, 'why': 'n-best flag of chart not found'}
    NB = M(('this',), flag)
    accessor = [None]

    def is_cell_sel(t):
        if canon(t) in (canon(IDX(('this',), ROW, COL)), canon(IDX(('deref', ('this',)), ROW, COL))):
            accessor[0] = 'operator()'
            return True
        if t[0] == 'mcall' and t[1] in (('this',), ('deref', ('this',))) and tuple(t[3]) == (ROW, COL) and t[2] in chart_methods and t[2] != 'update':
            accessor[0] = t[2]
            return True
        if t[0] == 'idx' and t[1] == M(('this',), 'chart_') and len(t[2]) == 1 and canon(t[2][0]) in cell_index_forms(ch, ROW, COL):
            accessor[0] = None
            return True
        return False

    def norm_cell(t):
        if not isinstance(t, tuple):
            return t
        if t and isinstance(t[0], str) and is_cell_sel(t):
            return _CELL
        return tuple(norm_cell(x) for x in t)
    paths = []
    for conds, effects, ret in Paths(u).paths:
        alias = {}
        effs = []
        for e in effects:
            if e[0] == 'decl' and is_cell_sel(e[2]):
                alias[V(e[1])] = _CELL
            else:
                effs.append(e)
        sub = lambda t: norm_cell(cxx.subst(t, alias)) if t is not None else None
        paths.append(([(sub(c), pol) for c, pol in conds], [sub(e) for e in effs], sub(ret)))

    def find_call(t):
        """first call of a cell method on the cell inside t"""
        if not isinstance(t, tuple):
            return None
        if t and t[0] == 'mcall' and t[1] == _CELL and t[2] in cell_methods:
            return t
        for x in t:
            r = find_call(x) if isinstance(x, tuple) else None
            if r is not None:
                return r
        return None
    summaries = {}

    def callee_paths(name):
        if name not in summaries:
            fn = cell_methods[name]
            ps = [p_.name for p_ in cxx.params_of(fn)]
            this_map = {('this',): _CELL, ('deref', ('this',)): _CELL}
            out = []
            for conds, effects, ret in Paths(fn).paths:
                f = lambda t: cxx.subst(cxx.subst(t, this_map), {}) if t is not None else None
                # a call of another method of the same cell written without a receiver: this->m(..)
                out.append(([(f(c), pol) for c, pol in conds], [f(e) for e in effects], f(ret)))
            summaries[name] = (ps, out)
        return summaries[name]
    for _round in range(8):
        new, changed = [], False
        for conds, effects, ret in paths:
            if ret is not None and ret[0] == 'cond':
                new.append((conds + [(ret[1], True)], effects, ret[2]))
                new.append((conds + [(ret[1], False)], effects, ret[3]))
                changed = True
                continue
            call = None
            for t in [c for c, _ in conds] + effects + ([ret] if ret is not None else []):
                call = find_call(t)
                if call is not None:
                    break
            if call is None:
                new.append((conds, effects, ret))
                continue
            ps, qpaths = callee_paths(call[2])
            if len(ps) != len(call[3]):
                return {'ok': False, 'why': 'cell::%s called with %d arguments' % (call[2], len(call[3]))}
            bind = {V(p_): a_ for p_, a_ in zip(ps, call[3])}
            for qc, qe, qr in qpaths:
                qc2 = [(cxx.subst(c, bind), pol) for c, pol in qc]
                qe2 = [cxx.subst(e, bind) for e in qe]
                qr2 = cxx.subst(qr, bind) if qr is not None else None
                rep_ = {call: qr2} if qr2 is not None else {}
                if qr2 is None and any(call != t and find_call(t) == call for t in [c for c, _ in conds] + ([ret] if ret is not None else [])):
                    return {'ok': False, 'why': 'cell::%s has a path without a value but its value is used' % call[2]}
                c2 = [(cxx.subst(c, rep_), pol) for c, pol in conds]
                e2 = [cxx.subst(e, rep_) for e in effects if not (qr2 is None and e == call)]
                e2 = [e for e in e2 if not (e == qr2 and qr2 is not None and e[0] in ('lit', 'var', 'addr', 'mcall') and e == cxx.subst(call, rep_) and e[0] != 'mcall')]
                r2 = cxx.subst(ret, rep_) if ret is not None else None
                new.append((qc2 + c2, qe2 + e2, r2))
            changed = True
        paths = new
        if not changed:
            break
    cids = M(_CELL, 'category_ids')
    items = M(_CELL, 'items')
    cnt = ('mcall', cids, 'count', (CAT,))
    has_forms = {canon(('bin', '>', cnt, LIT(0))): True, canon(('bin', '!=', cnt, LIT(0))): True, canon(('bin', '>=', cnt, LIT(1))): True, canon(cnt): True,
                 canon(('bin', '!=', ('mcall', cids, 'find', (CAT,)), ('mcall', cids, 'end', ()))): True,
                 canon(('bin', '==', ('mcall', cids, 'find', (CAT,)), ('mcall', cids, 'end', ()))): False,
                 canon(('bin', '==', cnt, LIT(0))): False}
    ins_terms = [('mem', ('mcall', cids, fn_, (CAT,)), 'second') for fn_ in ('insert', 'emplace')]
    for t_ in ins_terms:
        has_forms[canon(t_)] = False
    isz = ('mcall', items, 'size', ())
    first_forms = {canon(('mcall', items, 'empty', ())): True, canon(('bin', '==', isz, LIT(0))): True, canon(isz): False, canon(('bin', '>', isz, LIT(0))): False,
                   canon(('bin', '!=', isz, LIT(0))): False, canon(('un', '!', isz)): True}
    store_ret = {}
    for fn_, end_ in (('push_front', 'front'), ('push_back', 'back'), ('emplace_front', 'front'), ('emplace_back', 'back')):
        store_ret[canon(('mcall', items, fn_, (ITEM,)))] = canon(('addr', ('mcall', items, end_, ())))
    regcat = {canon(('mcall', cids, 'insert', (CAT,))), canon(('mcall', cids, 'emplace', (CAT,)))}
    regcell = {canon(('mcall', IDX(M(('this',), 'ending_cells_'), ADD(ROW, COL, LIT(1))), 'push_back', (('addr', _CELL),))): 'ending',
               canon(('mcall', IDX(M(('this',), 'starting_cells_'), ROW), 'push_back', (('addr', _CELL),))): 'starting'}

    def ev(c, env_):
        k = canon(c)
        if k in env_:
            return env_[k]
        if c[0] == 'un' and c[1] == '!':
            v = ev(c[2], env_)
            return None if v is None else not v
        if c[0] == 'bin' and c[1] in ('&&', '||'):
            a, b = ev(c[2], env_), ev(c[3], env_)
            if c[1] == '&&' and (a is False or b is False):
                return False
            if c[1] == '||' and (a is True or b is True):
                return True
            if a is None or b is None:
                return None
            return (a and b) if c[1] == '&&' else (a or b)
        if c[0] == 'lit' and isinstance(c[1], bool):
            return c[1]
        return None
    table, why = [], []
    ok = True
    registers = any(canon(e) in regcell for _, effs, _ in paths for e in effs)
    for nb in (False, True):
        for has in (False, True):
            for first in (False, True):
                if has and first:
                    continue
                taken = []
                for conds, effects, ret in paths:
                    env_ = {canon(NB): nb}
                    for k, v in has_forms.items():
                        env_[k] = has if v else (not has)
                    for k, v in first_forms.items():
                        env_[k] = first if v else (not first)
                    for e in effects:
                        if e[0] == 'decl':
                            v = ev(e[2], env_)
                            if v is not None:
                                env_[canon(V(e[1]))] = v
                    vals = [ev(c, env_) for c, pol in conds]
                    if any(v is None for v in vals):
                        ok = False
                        why.append('a test of update is none of (n-best flag, category in the cell, cell empty): %s' % [canon(c) for (c, pol), v in zip(conds, vals) if v is None][:1])
                        continue
                    if all(v == pol for v, (c, pol) in zip(vals, conds)):
                        taken.append((conds, effects, ret))
                if len(taken) != 1:
                    ok = False
                    why.append('%d paths apply when nbest=%s, category present=%s, cell empty=%s' % (len(taken), nb, has, first))
                    continue
                conds, effects, ret = taken[0]
                effs = [e for e in effects if e[0] != 'decl']
                stores = [canon(e) for e in effs if canon(e) in store_ret]
                cat_recorded = any(canon(e) in regcat for e in effs) or any(t_ in list(subterms(x)) for t_ in ins_terms for x in [c for c, _ in conds] + [e[2] for e in effects if e[0] == 'decl'])
                cells = sorted(regcell[canon(e)] for e in effs if canon(e) in regcell)
                others = [canon(e) for e in effs if canon(e) not in store_ret and canon(e) not in regcat and canon(e) not in regcell]
                want_null = (not nb) and has
                if want_null:
                    good = ret == LIT(None) and not stores and not others and not cells
                else:
                    good = len(stores) == 1 and ret is not None and canon(ret) == store_ret[stores[0]] and not others and (nb or cat_recorded)
                    if registers:
                        good = good and (cells == ['ending', 'starting'] if first else cells == [])
                if not good:
                    ok = False
                    why.append('nbest=%s, category present=%s, cell empty=%s: returns %s after %s' % (nb, has, first, canon(ret) if ret is not None else None, [canon(e) for e in effs]))
                table.append((nb, has, first, canon(ret) if ret is not None else None))
    return {'ok': ok and bool(table), 'why': why[:2], 'table': table, 'registers_in_update': registers, 'accessor': accessor[0], 'cell': cell, 'update': u}
