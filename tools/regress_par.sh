#!/bin/bash
# parallel form of regress.sh: usage regress_par.sh [jobs]; prints MISSED / NOISY lines, exit 1 on a MISSED
cd /verif
J=${1:-8}
one_seed() { d=$1; s=$(basename $d); p=${s%%-*}; out=$(python3 tools/eval_patch.py $d/patch.diff $p 2>/dev/null | head -1); case "$out" in *"FIRED: $p"*) ;; *) echo "MISSED $s: $out";; esac; }
one_benign() { d=$1; s=$(basename $d); out=$(python3 tools/eval_patch.py $d/patch.diff 2>/dev/null | head -1); case "$out" in "FIRED: -   ANALYSIS-ERROR: -") ;; *) echo "NOISY $s: $out";; esac; }
export -f one_seed one_benign
ls -d seeded/C* | xargs -P $J -I{} bash -c 'one_seed {}' > /tmp/regress_par.$$.out
ls -d seeded/benign/* | xargs -P $J -I{} bash -c 'one_benign {}' >> /tmp/regress_par.$$.out
sort /tmp/regress_par.$$.out
grep -q "^MISSED" /tmp/regress_par.$$.out; rc=$?; rm -f /tmp/regress_par.$$.out
[ $rc -eq 0 ] && exit 1 || exit 0
