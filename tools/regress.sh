#!/bin/bash
# regression over the kept sub-agent material: every seeded breaking change must still fire in its own check,
# every kept benign refactoring must stay silent in all checks.
cd /verif
fail=0
for d in seeded/C*; do
  s=$(basename $d); p=${s%%-*}
  out=$(python3 tools/eval_patch.py $d/patch.diff $p 2>/dev/null | head -1)
  case "$out" in *"FIRED: $p"*) ;; *) echo "MISSED $s: $out"; fail=1;; esac
done
for d in seeded/benign/*; do
  s=$(basename $d)
  out=$(python3 tools/eval_patch.py $d/patch.diff 2>/dev/null | head -1)
  case "$out" in "FIRED: -   ANALYSIS-ERROR: -") ;; *) echo "NOISY $s: $out";; esac
done
exit $fail
