#!/bin/bash
# usage: debug_patch.sh <patch> <PROP>  -- apply to scratch copy, run one check with traceback
d=$(mktemp -d /tmp/verif-dbg-XXXX); mkdir -p $d/repo; cp -r /repo/depccg $d/repo/; p=$(realpath $1); (cd $d/repo && git apply --whitespace=nowarn $p)
cd /verif; VERIF_REPO=$d/repo VERIF_EVIDENCE_DIR=$d/ev VERIF_REPLAY_DIR=$d/rp VERIF_TRACEBACK=1 python3 -m sa.run $2 2>&1 | tail -${3:-30}
rm -rf $d
