#!/usr/bin/env python3
"""Judge behaviour-preserving refactorings produced by independent sub-agents: every check must stay silent.

usage: eval_refactor.py <PROP> [--keep] [--dir /tmp/wt3]
For every <dir>/<PROP>_out/refactor<N>.diff: apply to a fresh worktree of /repo HEAD (outside /repo and /verif), run the
pinned suite there, run all 20 quick checks on the patched copy and report each check that does not exit 0.  With --keep
the patch is stored under /verif/seeded/benign/<PROP>-r<N>/ together with meta.json."""
import glob
import json
import os
import re
import shutil
import subprocess
import sys
import tempfile

VERIF = os.path.dirname(os.path.dirname(os.path.abspath(__file__)))


def sh(cmd, cwd=None, env=None, timeout=900):
    p = subprocess.run(cmd, shell=isinstance(cmd, str), cwd=cwd, env=env, stdout=subprocess.PIPE, stderr=subprocess.STDOUT, timeout=timeout)
    return p.returncode, p.stdout.decode('utf-8', 'replace')


def main():
    prop = sys.argv[1]
    keep = '--keep' in sys.argv
    base = sys.argv[sys.argv.index('--dir') + 1] if '--dir' in sys.argv else '/tmp/wt3'
    suffix = sys.argv[sys.argv.index('--suffix') + 1] if '--suffix' in sys.argv else ''
    offset = int(sys.argv[sys.argv.index('--offset') + 1]) if '--offset' in sys.argv else 0
    outdir = '%s/%s_out%s' % (base, prop, suffix)
    for patch in sorted(glob.glob(os.path.join(outdir, 'refactor*.diff'))):
        n = re.search(r'refactor(\d+)', patch).group(1)
        d = tempfile.mkdtemp(prefix='verif-refac-')
        try:
            pat = os.path.join(d, 'patched')
            sh(['git', '-C', '/repo', 'worktree', 'add', '-q', '--detach', pat, 'HEAD'])
            rc, out = sh(['git', 'apply', '--whitespace=nowarn', patch], cwd=pat)
            if rc != 0:
                print('%s-r%s DOES NOT APPLY: %s' % (prop, n, out[-200:]))
                continue
            rc, out = sh('/venv/bin/python -m pytest -q -p no:cacheprovider --continue-on-collection-errors 2>&1 | tail -1', cwd=pat)
            suite = out.strip()
            rc, out = sh([sys.executable, os.path.join(VERIF, 'tools', 'eval_patch.py'), patch], cwd=VERIF)
            first = out.strip().splitlines()[0] if out.strip() else ''
            m = re.search(r'FIRED: (.*?)\s+ANALYSIS-ERROR: (.*)', first)
            fired = m.group(1).split() if m and m.group(1) != '-' else []
            errs = m.group(2).split() if m and m.group(2) != '-' else []
            stat = subprocess.run(['git', 'apply', '--numstat', patch], cwd='/repo', stdout=subprocess.PIPE).stdout.decode().strip().replace('\n', '; ')
            print('%s-r%s suite=[%s] FALSE-ALARM=%s ANALYSIS-ERROR=%s  (%s)' % (prop, n, suite, ','.join(fired) or '-', ','.join(errs) or '-', stat[:120]))
            for l in out.strip().splitlines()[1:7]:
                print('     ' + l[:260])
            if keep and '3583 passed' in suite:
                dst = os.path.join(VERIF, 'seeded', 'benign', '%s-r%s' % (prop, int(n) + offset))
                os.makedirs(dst, exist_ok=True)
                shutil.copy(patch, os.path.join(dst, 'patch.diff'))
                notes = os.path.join(outdir, 'NOTES.md')
                meta = {'property': prop, 'kind': 'behaviour-preserving refactoring (must stay silent)', 'origin': 'independent sub-agent given only the property text and a scratch worktree',
                        'suite_on_patched_tree': suite, 'checks_firing': fired, 'checks_analysis_error': errs, 'files': stat}
                if os.path.exists(notes):
                    meta['agent_notes'] = open(notes).read()[:5000]
                json.dump(meta, open(os.path.join(dst, 'meta.json'), 'w'), indent=1)
        finally:
            sh(['git', '-C', '/repo', 'worktree', 'remove', '--force', os.path.join(d, 'patched')])
            shutil.rmtree(d, ignore_errors=True)
    return 0


if __name__ == '__main__':
    sys.exit(main())
