#!/usr/bin/env python3
"""Record, from the reference tree, the module-level private functions of depccg with their arity and the functions of
the same module that call them.  sa/core.py uses the table to recognise such a function after a rename (same arity,
called from the same places): the rules keep speaking about it under its reference name."""
import ast
import json
import os
import sys

sys.path.insert(0, os.path.dirname(os.path.dirname(os.path.abspath(__file__))))
from sa.core import Repo, private_function_table  # noqa: E402

repo = Repo('/repo')
out = {}
for rel in repo.py_files('depccg'):
    if rel.startswith(('depccg/allennlp', 'depccg/chainer', 'depccg/semantics')):
        continue
    try:
        mod = repo.module(rel)
    except Exception:
        continue
    t = private_function_table(mod.tree)
    if t:
        out[rel] = t
json.dump(out, open(os.path.join(os.path.dirname(os.path.dirname(os.path.abspath(__file__))), 'sa', 'reference_names.json'), 'w'), indent=1, sort_keys=True)
print(sum(len(v) for v in out.values()), 'private functions in', len(out), 'modules')
