#!/usr/bin/env python3
"""Confirm and file a seeded change produced by an independent sub-agent.

usage: ingest_seed.py <PROP> [--keep]
For every /tmp/wt/<PROP>_out/change<N>.diff: apply to a scratch copy of /repo (outside /repo and /verif), run the pinned test
suite there, run demo<N> against the clean and the patched copy, run all 20 quick checks on the patched copy, and (with --keep)
store patch.diff / demo / meta.json under /verif/seeded/<PROP>-<N>/.  The scratch copy is removed afterwards."""
import glob
import json
import os
import re
import shutil
import subprocess
import sys
import tempfile

VERIF = os.path.dirname(os.path.dirname(os.path.abspath(__file__)))


def sh(cmd, cwd=None, env=None, timeout=900):
    p = subprocess.run(cmd, shell=isinstance(cmd, str), cwd=cwd, env=env, stdout=subprocess.PIPE, stderr=subprocess.STDOUT, timeout=timeout)
    return p.returncode, p.stdout.decode('utf-8', 'replace')


def run_demo(demo, tree, workdir, outdir):
    """run a demonstration against `tree`: the agent's whole output directory is copied (helpers included) and every
    reference to the agent's worktree is redirected to the tree under test."""
    env_dir = os.path.join(workdir, 'demo_env_' + os.path.basename(tree))
    if not os.path.exists(env_dir):
        os.makedirs(env_dir)
        for root, dirs, files in os.walk(outdir):
            dirs[:] = [d_ for d_ in dirs if d_ not in ('scratch', '__pycache__')]
            rel = os.path.relpath(root, outdir)
            os.makedirs(os.path.join(env_dir, rel), exist_ok=True)
            for fn in files:
                src_p = os.path.join(root, fn)
                dst_p = os.path.join(env_dir, rel, fn)
                if os.path.getsize(src_p) > 2000000:
                    continue
                if fn.endswith(('.py', '.cpp', '.cc', '.h', '.sh', '.hpp')):
                    txt = open(src_p, errors='replace').read()
                    txt = re.sub(r'/tmp/wt\d?/C\d\d/\.\./C\d\d_out\d?', env_dir, txt)
                    txt = re.sub(r'/tmp/wt\d?/C\d\d_out\d?', env_dir, txt)
                    txt = re.sub(r'/tmp/wt\d?/C\d\d(?![_\d])', tree, txt)
                    open(dst_p, 'w').write(txt)
                else:
                    shutil.copy(src_p, dst_p)
    env = dict(os.environ, PYTHONPATH=tree + os.pathsep + env_dir, DEPCCG_TREE=tree)
    for i_ in range(1, 21):
        env['C%02d_WORKTREE' % i_] = tree
    # demonstrations that locate the tree relative to their own directory (<out>/../Cxx)
    m_ = re.search(r'(C\d\d)_out\d?', outdir)
    if m_:
        link = os.path.join(workdir, m_.group(1))
        if os.path.islink(link):
            os.unlink(link)
        if not os.path.exists(link):
            os.symlink(tree, link)
    d2 = os.path.join(env_dir, os.path.basename(demo))
    if demo.endswith('.py'):
        return sh(['/venv/bin/python', d2], cwd=tree, env=env, timeout=900)
    if demo.endswith(('.cpp', '.cc')):
        exe = os.path.join(env_dir, 'demo_exe_' + os.path.basename(demo).split('.')[0])
        rc, out = sh(['clang++-14', '-std=c++11', '-O1', '-I', tree, '-I', env_dir, d2, '-o', exe])
        if rc != 0:
            return 99, 'COMPILE FAILED\n' + out[-800:]
        return sh([exe], cwd=tree, env=env, timeout=900)
    if demo.endswith('.sh'):
        return sh(['bash', d2], cwd=tree, env=env, timeout=900)
    return 98, 'unknown demo type'


def main():
    prop = sys.argv[1]
    keep = '--keep' in sys.argv
    base = sys.argv[sys.argv.index('--dir') + 1] if '--dir' in sys.argv else '/tmp/wt'
    offset = int(sys.argv[sys.argv.index('--offset') + 1]) if '--offset' in sys.argv else 0
    suffix = sys.argv[sys.argv.index('--suffix') + 1] if '--suffix' in sys.argv else ''
    outdir = '%s/%s_out%s' % (base, prop, suffix)
    patches = sorted(glob.glob(os.path.join(outdir, 'change*.diff')))
    if not patches:
        print('no patches in', outdir)
        return 1
    results = []
    for patch in patches:
        n = re.search(r'change(\d+)', patch).group(1)
        demos = [d for d in glob.glob(os.path.join(outdir, 'demo%s*' % n)) if not d.endswith(('.o', '.out')) and os.path.isfile(d) and not os.access(d, os.X_OK) or d.endswith(('.py', '.cpp', '.sh'))]
        demos = [d for d in demos if d.endswith(('.py', '.cpp', '.cc', '.sh'))]
        d = tempfile.mkdtemp(prefix='verif-seed-')
        try:
            clean = os.path.join(d, 'clean')
            pat = os.path.join(d, 'patched')
            for t in (clean, pat):
                sh(['git', '-C', '/repo', 'worktree', 'add', '-q', '--detach', t, 'HEAD'])
            rc, out = sh(['git', 'apply', '--whitespace=nowarn', patch], cwd=pat)
            info = {'property': prop, 'change': int(n), 'patch': patch, 'applies': rc == 0}
            if rc != 0:
                info['error'] = out[-300:]
                results.append(info)
                continue
            rc, out = sh('/venv/bin/python -m pytest -q -p no:cacheprovider --continue-on-collection-errors 2>&1 | tail -1', cwd=pat)
            info['suite'] = out.strip()
            info['suite_ok'] = '3583 passed' in out and 'failed' not in out
            rc, out = sh('printf "#include <climits>\\n#include \\"depccg/parsing.h\\"\\n" > /tmp/_tu_%s.cpp && clang++-14 -std=c++11 -fsyntax-only -I%s /tmp/_tu_%s.cpp; rm -f /tmp/_tu_%s.cpp' % (n, pat, n, n))
            info['header_compiles'] = rc == 0
            info['demos'] = []
            for demo in demos:
                rc_c, out_c = run_demo(demo, clean, d, outdir)
                rc_p, out_p = run_demo(demo, pat, d, outdir)
                info['demos'].append({'demo': os.path.basename(demo), 'clean_rc': rc_c, 'patched_rc': rc_p,
                                      'clean_tail': out_c.strip().splitlines()[-2:], 'patched_tail': out_p.strip().splitlines()[-3:]})
            info['demo_ok'] = any(x['clean_rc'] == 0 and x['patched_rc'] != 0 for x in info['demos'])
            rc, out = sh([sys.executable, os.path.join(VERIF, 'tools', 'eval_patch.py'), patch], cwd=VERIF)
            info['checks'] = out.strip().splitlines()[0] if out.strip() else ''
            info['findings'] = out.strip().splitlines()[1:5]
            m = re.search(r'FIRED: (.*?)\s+ANALYSIS-ERROR: (.*)', info['checks'])
            info['fired'] = m.group(1).split() if m and m.group(1) != '-' else []
            info['analysis_error'] = m.group(2).split() if m and m.group(2) != '-' else []
            info['caught_by_own'] = prop in info['fired']
            results.append(info)
            if keep and info['applies'] and info['suite_ok'] and info['demo_ok']:
                dst = os.path.join(VERIF, 'seeded', '%s-%s' % (prop, int(n) + offset))
                os.makedirs(dst, exist_ok=True)
                shutil.copy(patch, os.path.join(dst, 'patch.diff'))
                for demo in demos:
                    shutil.copy(demo, os.path.join(dst, os.path.basename(demo)))
                notes = os.path.join(outdir, 'NOTES.md')
                meta = {'property': prop, 'breaks': prop, 'origin': 'independent sub-agent given only the property text and a scratch worktree',
                        'needs_to_manifest': 'see notes (extract below)', 'ran': {
                            'suite_on_patched_tree': info['suite'], 'header_compiles': info['header_compiles'], 'demos': info['demos'],
                            'checks_on_patched_tree': info['checks']},
                        'fired': info['fired'], 'caught_by_own_check': info['caught_by_own']}
                if os.path.exists(notes):
                    meta['agent_notes'] = open(notes).read()[:6000]
                json.dump(meta, open(os.path.join(dst, 'meta.json'), 'w'), indent=1)
        finally:
            for t in ('clean', 'patched'):
                sh(['git', '-C', '/repo', 'worktree', 'remove', '--force', os.path.join(d, t)])
            shutil.rmtree(d, ignore_errors=True)
    json.dump(results, open(os.path.join(outdir, 'ingest.json'), 'w'), indent=1)
    for r in results:
        print('%s-%s applies=%s suite_ok=%s header=%s demo_ok=%s FIRED=%s ERR=%s' % (r['property'], r['change'], r.get('applies'), r.get('suite_ok'),
              r.get('header_compiles'), r.get('demo_ok'), ','.join(r.get('fired', [])) or '-', ','.join(r.get('analysis_error', [])) or '-'))
        for d_ in r.get('demos', []):
            print('     demo %s clean_rc=%s patched_rc=%s' % (d_['demo'], d_['clean_rc'], d_['patched_rc']))
        for f in r.get('findings', [])[:2]:
            print('     ' + f[:230])
    return 0


if __name__ == '__main__':
    sys.exit(main())
