#!/usr/bin/env python3
"""Apply a patch to a scratch copy of /repo (outside /repo and /verif), run every registered quick check on it
and report which properties fire.  usage: eval_patch.py <patch.diff> [prop ...]"""
import json
import os
import shutil
import subprocess
import sys
import tempfile
from concurrent.futures import ThreadPoolExecutor

VERIF = os.path.dirname(os.path.dirname(os.path.abspath(__file__)))


def main():
    patch = os.path.abspath(sys.argv[1])
    props = sys.argv[2:] or ['C%02d' % i for i in range(1, 21)]
    d = tempfile.mkdtemp(prefix='verif-eval-')
    try:
        dst = os.path.join(d, 'repo')
        shutil.copytree('/repo/depccg', os.path.join(dst, 'depccg'), ignore=shutil.ignore_patterns('__pycache__', '*.pyc', '*.so'))
        p = subprocess.run(['git', 'apply', '--whitespace=nowarn', patch], cwd=dst, stdout=subprocess.PIPE, stderr=subprocess.STDOUT)
        if p.returncode != 0:
            print('PATCH DOES NOT APPLY: %s' % p.stdout.decode()[-400:])
            return 3

        def run(prop):
            env = dict(os.environ, VERIF_REPO=dst, VERIF_EVIDENCE_DIR=os.path.join(d, 'ev'), VERIF_REPLAY_DIR=os.path.join(d, 'rp'))
            q = subprocess.run([sys.executable, '-m', 'sa.run', prop], cwd=VERIF, env=env, stdout=subprocess.PIPE, stderr=subprocess.STDOUT)
            out = q.stdout.decode('utf-8', 'replace')
            return prop, q.returncode, [l for l in out.splitlines() if l.startswith(('FINDING', 'ANALYSIS-ERROR'))]
        with ThreadPoolExecutor(16) as ex:
            res = list(ex.map(run, props))
        fired = [p_ for p_, rc, _ in res if rc == 1]
        errs = [p_ for p_, rc, _ in res if rc == 2]
        print('FIRED: %s   ANALYSIS-ERROR: %s' % (' '.join(fired) or '-', ' '.join(errs) or '-'))
        for p_, rc, lines in res:
            for l in lines[:3]:
                print('  %s %s' % (p_, l[:260]))
        return 0
    finally:
        shutil.rmtree(d, ignore_errors=True)


if __name__ == '__main__':
    sys.exit(main())
