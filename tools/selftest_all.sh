#!/bin/bash
# run every self-test variant of every property; print only the ones with the wrong outcome
cd /verif
for i in $(seq -w 1 20); do
  python3 -m sa.selftest C$i 2>&1 | python3 -c "
import sys, json
n = bad = 0
for l in sys.stdin:
    try: r = json.loads(l)
    except Exception: continue
    n += 1
    if r['status'] != 'ok':
        bad += 1
        print('C$i', r['id'], r['status'], r.get('expect'), r.get('why', ''), (r.get('findings') or r.get('tail') or [''])[0][:200])
print('C$i variants=%d wrong=%d' % (n, bad))
"
done
