#!/usr/bin/env python3
"""Regenerates MANIFEST.json from the table below (python3 tools_gen_manifest.py)."""
import json
import os

HERE = os.path.dirname(os.path.abspath(__file__))

CLAIMED = {
    # id: (technique, level text, level note, design ref)
    'C01': ('clang JSON AST: linear-form comparison of agenda push sites + path summaries of chart/heap methods; ast constant propagation of head flags',
            'All search-order clauses (priority order, admissible monotone estimate at 5 push sites, first-pop-wins chart, failure iff goal empty, head-uniform grammars) hold on every path of the code; with the pencil proof in DESIGN.md 6 this gives non-increasing pop priorities and optimal first parse for all inputs.',
            'clang-14 front end; role discovery by type/dataflow; proof of monotonicity is on paper; float rounding and step budget not decided',
            'DESIGN.md 2/C01, 6'),
    'C02': ('clang JSON AST term comparison of back-pointer fields and loop contexts; symbolic path walk of the Cython finalizer with an abstract result stack',
            'Back-pointers, category ids, spans and guards at every push site, and the finalizer\'s leaf/unary/binary reconstruction, are those of a licensed derivation on every path.',
            'clang-14; Cython normaliser; soundness of the Python grammar itself is C03/C04', 'DESIGN.md 2/C02'),
    'C09': ('linear-form comparison of in_score at all push sites; head-propagation terms; symbolic paths of score read-out',
            'Inside-score recurrences, head propagation and score read-out conform on all paths; placeholder carries -inf.',
            'float accumulation order not decided', 'DESIGN.md 2/C09'),
    'C10': ('path summaries of cell::sort / chart::update / search guard; symbolic paths of per-sentence buffers',
            'Order (descending sort before output), count bound (goal.size() < nbest) and duplicate policy (n-best mode iff nbest>1) hold on every path.',
            'that the k scores are the k largest over all derivations is a consequence of C01 not decided here', 'DESIGN.md 2/C10'),
    'C12': ('rule-index dataflow across C++ item -> cache -> Cython finalizer; symbolic call-site terms of Tree.make_binary in readers; path analysis of guess_combinator_by_triplet',
            'The rule index, label, symbol and head flag travel together from one grammar result to the tree node at every hop; readers recover labels with the node\'s own triplet.',
            'tools/ja/reader.py copies symbols from the file and is outside the anchors', 'DESIGN.md 2/C12'),
    'C03': ('abstract evaluation of each English combinator (symbolic paths, independent pattern parser) against the CCG schema its label names; registry/dispatch completeness',
            'Patterns, side conditions, result term, label and head flag of all 13 combinators are instances of the labelled schema on every path; dispatch is a filter-free fold.',
            'takes "unification succeeded" to mean the inputs have the patterns\' shape (C06); schema table transcribed from the property statement', 'DESIGN.md 2/C03'),
    'C04': ('abstract evaluation of each Japanese combinator against its schema incl. slash preservation; reachability / arity analysis of the unary label function',
            'All 11 combinators are schema instances with head_is_left=False; every unary label is reachable and decided by the arity it stands for.',
            'as C03', 'DESIGN.md 2/C04'),
    'C06': ('typestate analysis of the matcher (provider and all 16 client sites) over symbolic paths; structural necessary conditions of the success relation',
            'Protocol clauses (answers once, no binding readable after failure) hold on every path on both sides of the interface; scan / feature-agreement structure conforms.',
            'the full success condition and binding contents quantify over runtime values and are not decided', 'DESIGN.md 2/C06'),
    'C13': ('dataclass decorator/field analysis; symbolic return terms of __eq__/__xor__/clear_features compared with the declared field sets',
            'Equality, hashing, feature-blind comparison and erasure are defined over exactly the declared field sets, which for frozen classes of this shape yields the value laws.',
            'semantics of dataclasses(frozen, eq) trusted', 'DESIGN.md 2/C13'),
    'C14': ('param-mutation summaries over the call-graph closure, set-iteration lint, dominance of the seen-rule gate, shape-guard analysis of attribute reads',
            'No path of rule application mutates arguments or shared state, depends on set order, or reads a shape-specific attribute unguarded; the gate and unary lookup have the required shape.',
            'exceptions outside the enumerated classes (recursion depth, memory) not decided', 'DESIGN.md 2/C14'),
    'C16': ('clang JSON AST: loop-shape rule + two-domain (log/prob) typing of the keep-test + normal forms; option-name plumbing over Python/Cython ASTs',
            'The per-word candidate loop bounds, early stop and threshold domain/normal form hold on every path; option names reach struct config unchanged.',
            'float comparison at the exact threshold not decided', 'DESIGN.md 2/C16'),
    'C18': ('may-alias / effect analysis of all printer functions and Tree accessors (shallow-constructor model), with an embedded positive example',
            'No encoder path stores into, deletes from or calls a mutating method on a value that may be or contain a caller-visible tree, category or token.',
            'model of which library calls return fresh objects (sa/effects.py); lxml and ccg2lambda internals not analysed', 'DESIGN.md 2/C18'),
    'C19': ('label-vocabulary closure between grammar result constructions and printer lookup tables, format dispatch exhaustiveness, placeholder-safe token / feature access lint over symbolic paths',
            'Every label the grammars can emit is a key of the table indexed with it, every offered format is dispatched, and no printer reads a token field or feature member the failure placeholder lacks.',
            'value-dependent failures (XML-illegal characters) and the ccg2lambda pipeline (needs nltk) not decided', 'DESIGN.md 2/C19'),
    'C05': ('regex-AST vs printer-template delimiter agreement; symbolic pop-count analysis of the shift-reduce reader',
            'Three structural necessary conditions of the round trip (delimiter agreement, feature separators, associativity never guessed) hold on every path of Category.parse / the printers.',
            'the round-trip equalities themselves quantify over all values and are not decided', 'DESIGN.md 2/C05'),
    'C07': ('symbolic paths of the conll head assignment with abstract child heads; flag polarity, loop-nest numbering and traversal-completeness rules over all 14 encoder walks',
            'Head assignment, flag polarity, sentence/n-best numbering and traversal completeness hold on every path of the encoders.',
            'equality of the eleven decoded outputs needs decoders and values: not decided', 'DESIGN.md 2/C07'),
    'C08': ('writer f-string templates reduced to field sequences vs the reader\'s symbolic cursor program; escape-table idempotence',
            'AUTO leaf/node records, head polarity, conll fragments and escaping agree field by field between auto_of / conll_of and _AutoLineReader.',
            'round trip for arbitrary categories depends on C05', 'DESIGN.md 2/C08'),
    'C11': ('dominance of validation, slice/range agreement of chunking, in-order gather shape, per-iteration append counting over symbolic paths, fill-once analysis of the C++ rule cache',
            'One result per sentence in input order for every chunking, validation before parsing, and only monotone memo tables survive between sentences, on every path.',
            'ties in heap order and multiprocessing internals not decided', 'DESIGN.md 2/C11'),
    'C15': ('writer/reader vocabulary agreement (tags, attributes, id templates) over ASTs; data lint of template rule vocabularies; call-site argument analysis of to_jigg_xml',
            'Tags/attributes read are written, ids are unique by construction, and the rule vocabulary handed to ccg2lambda is the one the language\'s templates key on.',
            'offsets tiling, tree isomorphism, token normalisation are value-level: not decided; several sub-rules match source idioms (listed in DESIGN.md)', 'DESIGN.md 2/C15'),
    'C17': ('abstract evaluation of the mask construction and its single use; effect analysis; data lint of all shipped category strings with an independent grammar',
            'Mask polarity, the single store and its indices, and well-formedness / inventory closure of >100k shipped category strings.',
            'numpy fancy-indexing semantics trusted', 'DESIGN.md 2/C17'),
    'C20': ('writer templates vs reader cursor programs for PTB and Japanese bank formats; signature binding of reader call sites; guarded-slice lint; symbol vocabulary closure over the shipped unary table',
            'Structural necessary conditions of both round trips hold on every path (field positions, symbols, escaping pairs, completeness check).',
            'round trips for arbitrary categories/tokens not decided', 'DESIGN.md 2/C20'),
}

NOT_YET = {}


def main():
    checks = []
    for pid in sorted(CLAIMED):
        tech, text, note, ref = CLAIMED[pid]
        checks.append({
            'property_id': pid,
            'quick_cmd': 'python3 -m sa.run %s --tier quick' % pid,
            'thorough_cmd': 'python3 -m sa.run %s --tier thorough' % pid,
            'evidence_file': 'evidence/%s.json' % pid,
            'replay_cmd_template': 'cat {path}',
            'engine': 'sa',
            'level_claimed': {'category': 'other', 'text': text, 'design_ref': ref},
            'level_note': note,
            'technique': 'static analysis: ' + tech,
        })
    props = [json.loads(l)['id'] for l in open(os.path.join(HERE, 'properties.jsonl'))]
    na = [{'property_id': p, 'reason': NOT_YET.get(p, 'check not built yet in this session (static rules designed in DESIGN.md); not claimed until it exists')}
          for p in props if p not in CLAIMED]
    m = {
        'version': 1,
        'setup_cmd': 'python3 -c "import ast, json; print(\'sa: stdlib only, nothing to build\')" && clang++-14 --version | head -1',
        'hooks': {
            'guard': 'MASASHI_Y_DEPCCG_VERIF',
            'enable': 'none needed: all checks read source text only; no hook or instrumentation commit exists in /repo',
            'baseline_off_cmd': 'cd /repo && /venv/bin/python -m pytest -ra -q -p no:cacheprovider --timeout=900 --continue-on-collection-errors',
            'source_commits': [],
            'add_only': True,
        },
        'engines': [{'name': 'sa', 'path': 'sa/', 'serves_properties': sorted(CLAIMED),
                     'kind_free_text': 'custom static analysers: Python ast + symbolic path walker, Cython normaliser, clang -fsyntax-only JSON AST terms'}],
        'checks': checks,
        'not_applicable': na,
        'notes': 'Exit codes: 0 holds / 1 VIOLATION / 2 ANALYSIS-ERROR (anchor vanished or unrecognised construct). '
                 'VERIF_REPO overrides the analysed tree (used by the self-test variants on scratch copies). '
                 'thorough = quick rules + must-fire / must-stay-silent variants of the checker (results in evidence.coverage.selftest).',
    }
    with open(os.path.join(HERE, 'MANIFEST.json'), 'w') as f:
        json.dump(m, f, indent=1)
        f.write('\n')
    print('MANIFEST.json: %d checks, %d not_applicable' % (len(checks), len(na)))


if __name__ == '__main__':
    main()
